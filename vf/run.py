"""Parent side: scratch copy of the working tree, sharding over subprocesses,
verdicts, evidence, replays.  No fastavro import here."""
import argparse
import base64
import concurrent.futures
import hashlib
import importlib
import json
import os
import shutil
import subprocess
import sys
import tempfile
import time

VERIF = os.path.dirname(os.path.dirname(os.path.abspath(__file__)))
REPO = os.environ.get("VERIF_REPO", "/repo")
PY = "/venv/bin/python"
NPROC = int(os.environ.get("VERIF_JOBS", "16"))
DEPS = os.path.join(VERIF, ".deps")

PROPS = ["C%02d" % i for i in range(1, 21)]


def make_scratch():
    """Copy fastavro/**/*.py of the *current working tree* to a fresh dir."""
    root = tempfile.mkdtemp(prefix="vf-scratch-")
    src = os.path.join(REPO, "fastavro")
    n = 0
    for d, dirs, files in os.walk(src):
        dirs[:] = [x for x in dirs if x != "__pycache__"]
        rel = os.path.relpath(d, src)
        dst = os.path.join(root, "fastavro", rel) if rel != "." else os.path.join(root, "fastavro")
        os.makedirs(dst, exist_ok=True)
        for f in files:
            if f.endswith(".py") or f == "py.typed":
                shutil.copy2(os.path.join(d, f), os.path.join(dst, f))
                n += 1
    return root, n


def ensure_deps():
    """icontract/deal next to the repository's interpreter (git-ignored)."""
    if os.path.isdir(os.path.join(DEPS, "icontract")):
        return True
    try:
        subprocess.run(
            [PY, "-m", "pip", "install", "-q", "--no-index", "--find-links",
             "/opt/veriftools/wheels", "--target", DEPS, "icontract", "deal"],
            check=True, stdout=subprocess.DEVNULL, stderr=subprocess.DEVNULL, timeout=300,
        )
        return True
    except Exception:
        return False


def worker_env(scratch, seed, shard):
    env = dict(os.environ)
    env["PYTHONPATH"] = os.pathsep.join([scratch, VERIF, DEPS])
    env["TZ"] = "UTC"
    env["PYTHONHASHSEED"] = str((seed * 7919 + shard * 104729 + 1) % 4294967295)
    env["PYTHONDONTWRITEBYTECODE"] = "1"
    env["VF_SCRATCH"] = scratch
    env["FASTAVRO_VERIF"] = "1"
    env.pop("PYTHONSTARTUP", None)
    return env


def run_shard(pid, spec, scratch, seed, idx, timeout):
    tmpdir = os.path.join(scratch, "shards")
    os.makedirs(tmpdir, exist_ok=True)
    specf = os.path.join(tmpdir, "spec-%d.json" % idx)
    outf = os.path.join(tmpdir, "out-%d.json" % idx)
    with open(specf, "w") as f:
        json.dump(spec, f)
    cmd = [PY, "-B", "-X", "faulthandler", "-m", "vf.worker", pid, specf, outf]
    try:
        p = subprocess.run(
            cmd, env=worker_env(scratch, seed, idx), cwd=scratch,
            stdout=subprocess.PIPE, stderr=subprocess.PIPE, timeout=timeout,
        )
    except subprocess.TimeoutExpired:
        return {"harness_error": "shard %d timed out after %ds" % (idx, timeout)}
    if p.returncode != 0 or not os.path.exists(outf):
        return {
            "harness_error": "shard %d exited %s: %s"
            % (idx, p.returncode, p.stderr.decode("utf-8", "replace")[-1500:])
        }
    with open(outf) as f:
        return json.load(f)


def load_known():
    path = os.path.join(VERIF, "known_findings.json")
    if not os.path.exists(path):
        return []
    with open(path) as f:
        return json.load(f).get("findings", [])


def main(argv=None):
    ap = argparse.ArgumentParser()
    ap.add_argument("prop")
    ap.add_argument("--tier", default=os.environ.get("VERIF_TIER", "quick"))
    ap.add_argument("--replay")
    ap.add_argument("--seed", type=int, default=int(os.environ.get("VERIF_SEED", "0") or 0))
    ap.add_argument("--jobs", type=int, default=NPROC)
    a = ap.parse_args(argv)
    pid = a.prop.upper()
    if pid not in PROPS:
        print("unknown property", pid)
        return 2
    tier = a.tier if a.tier in ("quick", "thorough") else "quick"
    mod = importlib.import_module("vf.props.%s" % pid.lower())
    t0 = time.time()
    ensure_deps()
    scratch, nfiles = make_scratch()
    try:
        if a.replay:
            return replay(pid, mod, a.replay, scratch, a.seed)
        return check(pid, mod, tier, a.seed, scratch, a.jobs, t0, nfiles)
    finally:
        shutil.rmtree(scratch, ignore_errors=True)


def replay(pid, mod, path, scratch, seed):
    with open(path) as f:
        rep = json.load(f)
    spec = dict(rep["spec"])
    spec["replay"] = rep
    res = run_shard(pid, spec, scratch, seed, 0, 900)
    if "harness_error" in res:
        print("INCONCLUSIVE property=%s reason=%s" % (pid, res["harness_error"]))
        return 2
    if res["violations"]:
        v = res["violations"][0]
        print("reproduced: %s: %s" % (v["kind"], v["detail"]))
        print("VIOLATION property=%s replay=%s" % (pid, path))
        return 1
    for key, ent in res.get("known", {}).items():
        print("KNOWN-FINDING: property=%s %s (%s)" % (pid, key, ent["what"]))
    print("replay did not reproduce a violation on the current tree")
    return 0


def check(pid, mod, tier, seed, scratch, jobs, t0, nfiles):
    specs = mod.plan(tier, seed)
    timeout = getattr(mod, "SHARD_TIMEOUT", {"quick": 600, "thorough": 3600})[tier]
    results = []
    with concurrent.futures.ThreadPoolExecutor(max_workers=jobs) as ex:
        futs = [
            ex.submit(run_shard, pid, spec, scratch, seed, i, timeout)
            for i, spec in enumerate(specs)
        ]
        for f in futs:
            results.append(f.result())
    errors = [r["harness_error"] for r in results if "harness_error" in r]
    good = [r for r in results if "harness_error" not in r]
    for r in good:
        for e in r.get("errors", []):
            errors.append("oracle raised: " + e)

    evals = sum(r["evals"] for r in good)
    hashes = set()
    counters = {}
    features = {}
    violations = []
    known = {}
    samples = []
    for r in good:
        hashes.update(r["hashes"])
        for k, v in r["counters"].items():
            counters[k] = counters.get(k, 0) + v
        for k, v in r["features"].items():
            features[k] = features.get(k, 0) + v
        violations.extend(r["violations"])
        for k, ent in r["known"].items():
            if k in known:
                known[k]["count"] += ent["count"]
            else:
                known[k] = dict(ent)
        for s in r["samples"]:
            if len(samples) < 6:
                samples.append(s)

    # known findings: only keys listed as open in the committed file count
    listed = {e["key"]: e for e in load_known() if e.get("property") == pid}
    for key in list(known):
        ent = listed.get(key)
        if ent is None or ent.get("status") != "open":
            # classifier named a key that is not an open entry: it is a violation
            violations.append(
                {"kind": "unlisted-finding", "detail": "%s: %s" % (key, known[key]["what"]),
                 "case": known[key]["witness"], "pickle": None, "spec": {}}
            )
            del known[key]

    reach_fail = []
    # reach minima are those of the quick tier for both tiers: a thorough run on a loaded
    # machine is cut by its time limit and must not become inconclusive for that reason
    minimums = getattr(mod, "REACH", {}).get("quick", {})
    for name, lo in minimums.items():
        if counters.get(name, 0) < lo:
            reach_fail.append("%s=%d<%d" % (name, counters.get(name, 0), lo))

    os.makedirs(os.path.join(VERIF, "replays"), exist_ok=True)
    if not os.environ.get("VF_KEEP_REPLAYS"):
        # replays of much earlier runs of this property would only be mistaken for this run's
        import glob
        for old in glob.glob(os.path.join(VERIF, "replays", "%s-*.json" % pid)):
            try:
                if time.time() - os.path.getmtime(old) > 1800:
                    os.unlink(old)
            except OSError:
                pass
    os.makedirs(os.path.join(VERIF, "evidence"), exist_ok=True)
    lines = []
    seen_kinds = {}
    for v in violations:
        digest = hashlib.sha1((v["kind"] + v["case"]).encode("utf-8", "replace")).hexdigest()[:12]
        path = os.path.join(VERIF, "replays", "%s-%s.json" % (pid, digest))
        with open(path, "w") as f:
            json.dump({"property": pid, "seed": seed, "tier": tier, **v}, f, indent=1)
        seen_kinds.setdefault(v["kind"], []).append(path)
        line = "VIOLATION property=%s replay=%s" % (pid, path)
        if line not in lines:
            lines.append(line)
        print("  %s: %s" % (v["kind"], v["detail"][:400]))
        print("  case: %s" % v["case"][:600])

    wall = time.time() - t0
    level = getattr(mod, "LEVEL", "exploration")
    cov = {
        "evaluations": evals,
        "distinct_nontrivial": len(hashes),
        "rule": mod.RULE,
        "samples": samples,
        "counters": counters,
        "features": features,
        "reach_minimums": minimums,
        "known_findings_seen": {k: v["count"] for k, v in known.items()},
        "shards": len(specs),
        "source_files_copied": nfiles,
    }
    extra = getattr(mod, "coverage_extra", None)
    if extra:
        cov.update(extra(tier, counters))
    ev = {
        "property_id": pid,
        "tier": tier,
        "seed": seed,
        "level": level,
        "coverage": cov,
        "assumptions": getattr(mod, "ASSUMPTIONS", []),
        "wall_s": round(wall, 2),
        "violations": len(violations),
    }
    with open(os.path.join(VERIF, "evidence", "%s.json" % pid), "w") as f:
        json.dump(ev, f, indent=1, sort_keys=True, default=str)

    for key, ent in sorted(known.items()):
        print("KNOWN-FINDING: property=%s %s: %s [seen %d times, e.g. %s]"
              % (pid, key, listed[key].get("what_fails", ent["what"]), ent["count"], ent["witness"][:200]))
    print("%s tier=%s seed=%d evaluations=%d distinct=%d violations=%d wall=%.1fs"
          % (pid, tier, seed, evals, len(hashes), len(violations), wall))
    interesting = {k: v for k, v in sorted(counters.items())}
    print("  counters: %s" % json.dumps(interesting)[:1500])
    for e in errors:
        print("  harness error: %s" % e[:1500])
    if violations:
        for l in lines:
            print(l)
        return 1
    if errors:
        print("INCONCLUSIVE property=%s reason=%s" % (pid, "; ".join(errors)[:1500]))
        return 2
    if reach_fail:
        print("INCONCLUSIVE property=%s reason=reach %s" % (pid, ",".join(reach_fail)))
        return 2
    if evals == 0:
        print("INCONCLUSIVE property=%s reason=nothing observed" % pid)
        return 2
    return 0


if __name__ == "__main__":
    sys.exit(main())

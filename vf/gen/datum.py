"""Conforming Python data for a reference-model schema node, biased to the
boundaries the property quantifiers name.  Pure function of the rng."""
import array
import datetime
import decimal
import math
import struct
import types
import uuid
from collections.abc import Mapping

from ..ref.schema import deref, hint_name, NAMED

# every |n| around 2^(7k-1): varint length boundaries of the zig-zag encoding
VARINT_EDGES = sorted(
    {
        s * ((1 << (7 * k - 1)) + d)
        for k in range(1, 10)
        for d in (-1, 0, 1)
        for s in (1, -1)
    }
    | {0, -1, 1, (1 << 31) - 1, -(1 << 31), 1 << 31, -(1 << 31) - 1, (1 << 63) - 1, -(1 << 63)}
)
INT_EDGES = [v for v in VARINT_EDGES if -(1 << 31) <= v < (1 << 31)]
LONG_EDGES = [v for v in VARINT_EDGES if -(1 << 63) <= v < (1 << 63)]

F32_MAX = struct.unpack("<f", b"\xff\xff\x7f\x7f")[0]
FLOAT_SPECIALS = [
    0.0,
    -0.0,
    float("inf"),
    float("-inf"),
    float("nan"),
    struct.unpack("<f", b"\x01\x00\x00\x00")[0],  # smallest float32 subnormal
    F32_MAX,
    -F32_MAX,
    1.5,
    0.1,  # not float32-exact
    1e-40,
    16777217.0,  # not float32-exact integer
]
DOUBLE_SPECIALS = FLOAT_SPECIALS + [5e-324, 1.7976931348623157e308, -1.7976931348623157e308, 2.0**-1074]
STRINGS = ["", "a", "hello world", "é", "ß∂", "中文", "\U0001f600", "a\u0000b", "߿ࠀ￿", "x" * 64, "é" * 70]
COLLECTION_SIZES = [0, 0, 1, 1, 2, 3, 5]
BIG_SIZES = [63, 64, 65, 200]


class FrozenMap(Mapping):
    """A Mapping that is not a dict."""

    def __init__(self, d):
        self._d = dict(d)

    def __getitem__(self, k):
        return self._d[k]

    def __iter__(self):
        return iter(self._d)

    def __len__(self):
        return len(self._d)

    def __repr__(self):
        return "FrozenMap(%r)" % (self._d,)

    def __eq__(self, other):
        return isinstance(other, FrozenMap) and self._d == other._d

    def __hash__(self):
        return 0


DEFAULTS = dict(
    max_depth=6,
    hints=0.0,  # probability of a (name, value) tuple / "-type" hint at a union
    omit_defaults=0.5,
    mappings=0.05,  # non-dict Mapping / bytearray / tuple-as-sequence variants
    big=0.03,
    extras=0.0,  # extra keys in records
    int_for_float=0.15,
    logical_values=True,
    size_budget=400,
    no_tuples=False,
    omit_nullable=0.0,  # omit fields without default whose type accepts null
)


class DatumGen:
    def __init__(self, rng, **opts):
        self.rng = rng
        self.o = dict(DEFAULTS)
        self.o.update(opts)
        self.features = set()
        self.budget = self.o["size_budget"]

    def gen(self, node, depth=0, in_union=False):
        r = self.rng
        node = deref(node)
        k = node.kind
        self.budget -= 1
        if node.logical and self.o["logical_values"]:
            v = self._logical(node)
            if v is not None:
                return v
        if k == "null":
            return None
        if k == "boolean":
            return r.random() < 0.5
        if k == "int":
            if r.random() < 0.5:
                return r.choice(INT_EDGES)
            return r.randint(-(1 << 31), (1 << 31) - 1)
        if k == "long":
            if r.random() < 0.5:
                return r.choice(LONG_EDGES)
            return r.randint(-(1 << 63), (1 << 63) - 1)
        if k == "float":
            x = r.random()
            if x < self.o["int_for_float"]:
                self.features.add("int_for_float")
                return r.choice([0, 1, -7, 1 << 24, (1 << 24) + 1, -(1 << 40)])
            if x < 0.6:
                return r.choice(FLOAT_SPECIALS)
            return struct.unpack("<f", struct.pack("<f", r.uniform(-1e6, 1e6)))[0] if r.random() < 0.5 else r.uniform(-1e30, 1e30)
        if k == "double":
            x = r.random()
            if x < self.o["int_for_float"]:
                self.features.add("int_for_float")
                return r.choice([0, 1, -7, (1 << 53) + 1, -(1 << 62)])
            if x < 0.5:
                return r.choice(DOUBLE_SPECIALS)
            return r.uniform(-1e300, 1e300) if r.random() < 0.5 else r.gauss(0, 1)
        if k == "bytes":
            b = self._bytes()
            if r.random() < self.o["mappings"]:
                self.features.add("bytearray")
                return bytearray(b)
            return b
        if k == "string":
            if r.random() < 0.02:
                self.features.add("long_string")
                return r.choice(["é", "a", "中"]) * r.choice([8192, 9000])
            if r.random() < 0.7:
                return r.choice(STRINGS)
            return "".join(chr(r.choice([r.randint(32, 126), r.randint(0xA0, 0x7FF), r.randint(0x800, 0xD7FF), r.randint(0x10000, 0x10FFFF)])) for _ in range(r.randint(1, 12)))
        if k == "fixed":
            return bytes(r.getrandbits(8) for _ in range(node.size))
        if k == "enum":
            return r.choice(node.symbols)
        if k == "array":
            n = self._size(depth)
            items = [self.gen(node.items, depth + 1) for _ in range(n)]
            if self.o["no_tuples"] and in_union and r.random() < 0.35:
                # tuple notation switched off: any tuple is a plain sequence, also a pair whose
                # first item spells a branch name
                self.features.add("tuple_sequence_under_union")
                names = getattr(self, "_union_names", None)
                if deref(node.items).kind == "string" and names and r.random() < 0.6:
                    return (r.choice(names), r.choice(["b", "", "x"]))
                if len(items) != 2 and r.random() < 0.5:
                    items = [self.gen(node.items, depth + 1) for _ in range(2)]
                return tuple(items)
            if r.random() < self.o["mappings"] and not in_union:
                # directly under a union a tuple is a (name, value) hint (A2)
                self.features.add("tuple_sequence")
                return tuple(items)
            return items
        if k == "map":
            n = self._size(depth)
            keys = set()
            while len(keys) < n:
                keys.add(r.choice(["k", "key", "", "é", "name", "type", "f"]) + (str(r.randint(0, 999)) if r.random() < 0.8 else ""))
            d = {key: self.gen(node.values, depth + 1) for key in sorted(keys, key=lambda s: r.random())}
            if "" in d:
                self.features.add("empty_map_key")
            if r.random() < self.o["mappings"]:
                self.features.add("mapping_nondict")
                return FrozenMap(d)
            return d
        if k == "record":
            d = {}
            for f in node.fields:
                if f.has_default and r.random() < self.o["omit_defaults"]:
                    self.features.add("omitted_default")
                    continue
                if (not f.has_default and self.o["omit_nullable"] and r.random() < self.o["omit_nullable"]
                        and _accepts_none(f.type)):
                    self.features.add("omitted_nullable")
                    continue
                d[f.name] = self.gen(f.type, depth + 1)
            if self.o["extras"] and r.random() < self.o["extras"]:
                d["zz_extra"] = 1
                self.features.add("extra_key")
            if r.random() < self.o["mappings"]:
                self.features.add("mapping_nondict")
                return FrozenMap(d)
            return d
        if k == "union":
            return self._union(node, depth)
        raise ValueError(k)

    def _size(self, depth):
        r = self.rng
        if depth >= self.o["max_depth"] or self.budget <= 0:
            return 0
        if depth <= 1 and r.random() < self.o["big"]:
            self.features.add("big_collection")
            return r.choice(BIG_SIZES)
        return r.choice(COLLECTION_SIZES)

    def _bytes(self):
        r = self.rng
        x = r.random()
        if x < 0.2:
            return b""
        if x < 0.25:
            self.features.add("all_bytes")
            return bytes(range(256))
        return bytes(r.getrandbits(8) for _ in range(r.randint(1, 20)))

    def _union(self, node, depth):
        r = self.rng
        branches = node.branches
        deep = depth >= self.o["max_depth"] or self.budget <= 0
        if deep:
            # choose a terminating branch: prefer null / primitives
            order = sorted(range(len(branches)), key=lambda i: _weight(branches[i]))
            i = order[0]
        else:
            i = r.randrange(len(branches))
        b = branches[i]
        self._union_names = [hint_name(x) for x in branches]
        v = self.gen(b, depth + 1, in_union=True)
        self.features.add("branch_pos%d" % i)
        if self.o["hints"] and r.random() < self.o["hints"]:
            bd = deref(b)
            if bd.kind == "record" and r.random() < 0.5 and isinstance(v, dict):
                v = dict(v)
                v["-type"] = bd.name
                self.features.add("hint_dash_type")
                return v
            self.features.add("hint_tuple")
            return (hint_name(b), v)
        return v

    def _logical(self, node):
        r = self.rng
        lt = node.logical
        k = node.kind
        if (k, lt) == ("int", "date"):
            return datetime.date.fromordinal(r.randint(1, 3652059))
        if (k, lt) == ("int", "time-millis"):
            return datetime.time(r.randint(0, 23), r.randint(0, 59), r.randint(0, 59), r.randint(0, 999999))
        if (k, lt) == ("long", "time-micros"):
            return datetime.time(r.randint(0, 23), r.randint(0, 59), r.randint(0, 59), r.randint(0, 999999))
        if k == "long" and lt in ("timestamp-millis", "timestamp-micros"):
            dt = datetime.datetime(1, 1, 2) + datetime.timedelta(microseconds=r.randint(0, 315537724799999999 - 2 * 86400 * 10**6))
            off = datetime.timedelta(minutes=r.randint(-1439, 1439)) if r.random() < 0.7 else datetime.timedelta(0)
            return dt.replace(tzinfo=datetime.timezone(off))
        if k == "long" and lt in ("local-timestamp-millis", "local-timestamp-micros"):
            return datetime.datetime(1, 1, 1) + datetime.timedelta(microseconds=r.randint(0, 315537897599999999))
        if (k, lt) == ("string", "uuid"):
            return uuid.UUID(int=r.getrandbits(128))
        if lt == "decimal" and k in ("bytes", "fixed"):
            p = node.attrs["precision"]
            s = node.attrs.get("scale", 0)
            nd = r.randint(1, p)
            coeff = r.randint(0, 10**nd - 1)
            if k == "fixed":
                lim = (1 << (8 * node.size - 1)) - 1
                coeff = min(coeff, lim)
            sign = r.choice([0, 1])
            return decimal.Decimal((sign, tuple(int(c) for c in str(coeff)), -s))
        return None


def _accepts_none(t):
    t = deref(t)
    if t.kind == "null":
        return True
    return t.kind == "union" and any(deref(b).kind == "null" for b in t.branches)


def _weight(b):
    k = deref(b).kind
    if k == "null":
        return 0
    if k in ("record", "array", "map", "union"):
        return 5 if k == "record" else 3
    return 1


def gen_datum(node, rng, **opts):
    g = DatumGen(rng, **opts)
    d = g.gen(node)
    return d, g.features


def boundary_data(kind):
    """Deterministic boundary stratum for a primitive kind."""
    if kind == "int":
        return list(INT_EDGES)
    if kind == "long":
        return list(LONG_EDGES)
    if kind == "float":
        return list(FLOAT_SPECIALS)
    if kind == "double":
        return list(DOUBLE_SPECIALS)
    if kind == "string":
        return list(STRINGS) + ["é" * 8200]
    if kind == "bytes":
        return [b"", bytes(range(256)), b"\x00", b"\xff" * 65]
    if kind == "boolean":
        return [True, False]
    if kind == "null":
        return [None]
    raise ValueError(kind)

"""Single near-miss mutations of a conforming datum (C07, C10).  Whether the
result really is non-conforming is decided by the conformance predicate, not
here (a mutated value may conform to another union branch)."""
import copy
from collections.abc import Mapping

from ..ref.schema import deref, hint_name
from ..ref import conform as RC
from .datum import FrozenMap


def _positions(node, d, path, out, depth=0):
    """Collect (path, node, value) for every position of the datum."""
    node = deref(node)
    out.append((path, node, d))
    if depth > 8:
        return
    k = node.kind
    if k == "record" and isinstance(d, Mapping):
        for f in node.fields:
            if f.name in d:
                _positions(f.type, d[f.name], path + (("key", f.name),), out, depth + 1)
    elif k == "array" and isinstance(d, (list, tuple)):
        for i, x in enumerate(d):
            if i < 4:
                _positions(node.items, x, path + (("idx", i),), out, depth + 1)
    elif k == "map" and isinstance(d, Mapping):
        for n, (key, x) in enumerate(d.items()):
            if n < 4:
                _positions(node.values, x, path + (("key", key),), out, depth + 1)
    elif k == "union":
        inner = d
        hinted = False
        if type(d) is tuple and len(d) == 2:
            inner = d[1]
            hinted = True
        try:
            i, inner = RC.choose_branch(node, d)
        except RC.NoBranch:
            return
        _positions(node.branches[i], inner, path + (("hint",),) if hinted else path, out, depth + 1)


def _replace(d, path, new):
    if not path:
        return new
    step = path[0]
    if step[0] == "hint":
        return (d[0], _replace(d[1], path[1:], new))
    if isinstance(d, FrozenMap):
        c = dict(d._d)
        c[step[1]] = _replace(c[step[1]], path[1:], new)
        return FrozenMap(c)
    if isinstance(d, Mapping):
        c = dict(d)
        c[step[1]] = _replace(c[step[1]], path[1:], new)
        return c
    if isinstance(d, tuple):
        lst = list(d)
        lst[step[1]] = _replace(lst[step[1]], path[1:], new)
        return tuple(lst)
    lst = list(d)
    lst[step[1]] = _replace(lst[step[1]], path[1:], new)
    return lst


DROP = object()


def candidates(node, d, rng, logical_safe=True):
    """(kind, replacement) candidates for the value d at a node."""
    k = node.kind
    out = []
    if node.logical:
        # A16: near misses for logical-typed leaves from {dict, list, None, bytes}
        out += [("wrong_type", {}), ("wrong_type", []), ("wrong_type", None)]
        if k not in ("bytes", "fixed"):
            out.append(("wrong_type", b"x"))
        return out
    if k == "null":
        out += [("wrong_type", 0), ("wrong_type", ""), ("wrong_type", False)]
    elif k == "boolean":
        out += [("wrong_type", 1), ("wrong_type", "true"), ("wrong_type", None)]
    elif k == "int":
        out += [("bool_for_int", True), ("out_of_range", 1 << 31), ("out_of_range", -(1 << 31) - 1),
                ("wrong_type", "1"), ("wrong_type", 1.5), ("wrong_type", None)]
    elif k == "long":
        out += [("bool_for_int", False), ("out_of_range", 1 << 63), ("out_of_range", -(1 << 63) - 1),
                ("wrong_type", "1"), ("wrong_type", 2.5), ("wrong_type", None)]
    elif k in ("float", "double"):
        out += [("bool_for_int", True), ("wrong_type", "1.0"), ("wrong_type", None), ("wrong_type", [1.0])]
    elif k == "bytes":
        out += [("wrong_type", "str"), ("wrong_type", 5), ("wrong_type", None)]
    elif k == "string":
        out += [("wrong_type", b"bytes"), ("wrong_type", 5), ("wrong_type", None)]
    elif k == "fixed":
        out += [("wrong_fixed_size", b"x" * (node.size + 1)), ("wrong_type", "s" * node.size), ("wrong_type", None)]
        if node.size > 0:
            out.append(("wrong_fixed_size", b"x" * (node.size - 1)))
    elif k == "enum":
        out += [("unknown_symbol", "NOT_A_SYMBOL"), ("wrong_type", 0), ("wrong_type", None)]
    elif k == "array":
        out += [("wrong_type", 5), ("wrong_type", "string"), ("wrong_type", {"a": 1}), ("wrong_type", None)]
    elif k == "map":
        out += [("wrong_type", [1]), ("wrong_type", 7)]
        if isinstance(d, Mapping):
            c = dict(d.items())
            c[1] = None
            out.append(("non_string_key", c))
            if d:
                c2 = {}
                for n, (kk, vv) in enumerate(d.items()):
                    c2[(kk.encode() if n == 0 else kk)] = vv
                out.append(("non_string_key", c2))
    elif k == "record":
        out += [("wrong_type", [1, 2]), ("wrong_type", "rec"), ("wrong_type", None)]
        if isinstance(d, Mapping):
            for f in node.fields:
                if f.name in d and not f.has_default:
                    c = {kk: vv for kk, vv in d.items() if kk != f.name}
                    out.append(("missing_field", c))
            c = dict(d.items())
            c["-type"] = "no.such.Record"
            out.append(("wrong_hint", c))
    elif k == "union":
        out += [("wrong_hint", ("no_such_branch", d[1] if type(d) is tuple and len(d) == 2 else d)),
                ("wrong_type", object),
                # tuples that are not (name, value) pairs are plain sequences (A2)
                ("odd_tuple", (1, 2, 3)), ("odd_tuple", ()), ("odd_tuple", ("only",))]
        names = [hint_name(b) for b in node.branches]
        if len(names) > 1:
            inner = d[1] if type(d) is tuple and len(d) == 2 else d
            out.append(("wrong_hint", (rng.choice(names), inner)))
    return out


def mutate(node, datum, rng):
    """Returns (mutated datum, mutation kind, depth) or None."""
    pos = []
    try:
        _positions(node, datum, (), pos)
    except Exception:
        return None
    rng.shuffle(pos)
    for path, n, v in pos[:6]:
        cands = candidates(n, v, rng)
        if not cands:
            continue
        kind, new = rng.choice(cands)
        try:
            return _replace(datum, path, new), kind, len(path)
        except Exception:
            continue
    return None

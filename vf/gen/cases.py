"""(schema, datum) case generation shared by several properties."""
from ..ref import schema as RS, conform as RC
from .schema import gen_schema
from .datum import gen_datum, boundary_data, DatumGen


def gen_case(rng, sopts=None, dopts=None, tries=20):
    """Returns dict(schema, node, env, datum, features)."""
    sopts = sopts or {}
    dopts = dopts or {}
    for _ in range(tries):
        js, feats = gen_schema(rng, **sopts)
        node, env = RS.build(js)
        for _retry in range(6):
            g = DatumGen(rng, **dopts)
            d = g.gen(node)
            if not RC.float_out_of_range(node, d, not dopts.get("no_tuples")):
                break
        else:
            continue
        try:
            # Scope: a default that itself conforms to a later map/array branch
            # of a recursive type denotes an infinite value under the C09
            # branch rule (the default of `y: [Rec, map<R>]` is re-dispatched
            # to map<R>, whose values again omit `y` ...).  Such schemas have
            # no finite encoding of the datum; they are left out.
            RC.from_datum(node, d, not dopts.get("no_tuples"))
        except RecursionError:
            continue
        except Exception:
            pass
        return {
            "schema": js,
            "node": node,
            "env": env,
            "datum": d,
            "features": set(feats) | set(g.features),
        }
    raise RuntimeError("could not generate a case")


def wrap_deep(kind_js):
    """Embed a primitive at depth: inside a map inside the second branch of a
    union inside an array inside a record field."""
    return {
        "type": "record",
        "name": "Deep",
        "namespace": "bnd",
        "fields": [
            {"name": "pad", "type": "boolean"},
            {
                "name": "arr",
                "type": {
                    "type": "array",
                    "items": ["null", {"type": "map", "values": kind_js}],
                },
            },
            {"name": "tail", "type": "long"},
        ],
    }


def float_double_unions():
    """Unions holding both float and double, in every spelling of the two
    primitives, with Python floats that are not single-precision values."""
    out = []
    vals = [0.1, 3.141592653589793, 1e-310, 1e200, -1e200, 0.5, 3.4028235677973366e38, float("inf")]
    spell = {"plain": lambda p: p, "dict": lambda p: {"type": p}, "dict_doc": lambda p: {"type": p, "doc": "spelled out"}}
    k = 0
    for fs in spell:
        for ds in spell:
            for order in ("fd", "df", "nfd", "fsd"):
                f, d = spell[fs]("float"), spell[ds]("double")
                u = {"fd": [f, d], "df": [d, f], "nfd": ["null", f, d], "fsd": [f, "string", d]}[order]
                v = vals[k % len(vals)]
                k += 1
                feats = {"union_float_double", "union_float_double_" + fs + "_" + ds}
                out.append((u, v, feats))
                out.append(({"type": "record", "name": "FD", "fields": [
                    {"name": "m", "type": {"type": "map", "values": u}}, {"name": "a", "type": {"type": "array", "items": u}}]},
                    {"m": {"k": v, "l": vals[(k + 3) % len(vals)]}, "a": [v, vals[(k + 1) % len(vals)]]}, feats))
    return out


def boundary_cases():
    """Deterministic boundary stratum (independent of the seed)."""
    out = float_double_unions()
    for kind in ("int", "long", "float", "double", "string", "bytes", "boolean", "null"):
        vals = boundary_data(kind)
        # top level, one value at a time
        for v in vals:
            out.append((kind, v, {"boundary_" + kind, "top_primitive"}))
        # all of them at depth in one datum, and one per datum
        deep = wrap_deep(kind)
        for i, v in enumerate(vals):
            d = {"pad": bool(i & 1), "arr": [None, {"k%d" % i: v, "": v}], "tail": -i}
            out.append((deep, d, {"boundary_" + kind, "boundary_deep"}))
    # collection sizes
    for n in (0, 1, 63, 64, 65, 200):
        out.append(({"type": "array", "items": "int"}, list(range(n)), {"coll_%d" % n, "coll_big" if n >= 64 else "coll_small"}))
        out.append(({"type": "map", "values": "string"}, {"k%d" % i: "v" * (i % 3) for i in range(n)}, {"coll_%d" % n, "coll_big" if n >= 64 else "coll_small"}))
    # union arities 1..5, every branch position
    prims = ["null", "boolean", "long", "string", "bytes"]
    vals = [None, True, 1 << 40, "s", b"b"]
    for arity in range(1, 6):
        for pos in range(arity):
            out.append((prims[:arity], vals[pos], {"union_arity_%d" % arity, "union_pos_%d" % pos}))
    # integers at the edge of int32 / int64 under unions whose branches differ exactly there
    for v in ((1 << 31) - 1, 1 << 31, -(1 << 31), -(1 << 31) - 1, (1 << 63) - 1, -(1 << 63)):
        for u in (["int", "long"], ["null", "int", "long"], ["int", "string", "long"], ["int", "double"]):
            out.append((u, v, {"union_int_edge"}))
            out.append(({"type": "record", "name": "Edge", "fields": [{"name": "u", "type": u}, {"name": "t", "type": "int"}]}, {"u": v, "t": -1}, {"union_int_edge"}))
    for v in (1 << 63, -(1 << 63) - 1, 1 << 70):
        out.append((["int", "long", "double"], v, {"union_int_edge"}))
    # a wide union: branch indices on both sides of the one-byte / two-byte varint boundary (64) and of 128
    wide = ["null", "boolean", "string", {"type": "array", "items": "long"}]
    wide += [{"type": "fixed", "name": "F%d" % k, "size": k} for k in range(1, 61)]
    wide += [{"type": "record", "name": "R%d" % k, "fields": [{"name": "f%d" % k, "type": "int"}]} for k in range(70)]
    wide += [{"type": "enum", "name": "E", "symbols": ["only"]}]
    for idx in (0, 1, 3, 62, 63, 64, 65, 100, 126, 127, 128, 129, 133, 134):
        b = wide[idx]
        if b == "null":
            v = None
        elif b == "boolean":
            v = True
        elif b == "string":
            v = "only"  # a string conforms to the string branch before the enum
        elif b["type"] == "array":
            v = [1, 2]
        elif b["type"] == "fixed":
            v = bytes(range(b["size"]))
        elif b["type"] == "record":
            v = {b["fields"][0]["name"]: idx}
        else:
            v = ("E", "only")
        out.append((wide, v, {"wide_union", "wide_union_idx_%d" % idx}))
        out.append(({"type": "array", "items": wide}, [v, v], {"wide_union"}))
    # values longer than any internal read chunk (64 KiB), alone and as the last thing encoded
    for n in (65536, 65537, 70001):
        out.append(("string", "s" * n, {"long_value", "boundary_string"}))
        out.append(("bytes", bytes(range(256)) * (n // 256) + b"\x00" * (n % 256), {"long_value", "boundary_bytes"}))
    out.append(({"type": "record", "name": "Tail", "fields": [{"name": "n", "type": "long"}, {"name": "note", "type": "string"}]},
                {"n": 5, "note": "\u00e9" * 40000}, {"long_value"}))
    # an enum wide enough for two-byte positions, followed by more data on the stream
    big_enum = {"type": "enum", "name": "Wide", "symbols": ["S%d" % i for i in range(200)]}
    for pos in (0, 62, 63, 64, 65, 127, 128, 129, 199):
        out.append((big_enum, "S%d" % pos, {"wide_enum"}))
        out.append(({"type": "record", "name": "WE", "fields": [{"name": "e", "type": big_enum}, {"name": "after", "type": "string"},
                                                                {"name": "es", "type": {"type": "array", "items": "Wide"}}]},
                    {"e": "S%d" % pos, "after": "tail", "es": ["S%d" % pos, "S0", "S199"]}, {"wide_enum"}))
        out.append((["null", big_enum, "string"], ("Wide", "S%d" % pos), {"wide_enum"}))
    # string defaults of unions: the first branch a JSON string fits decides what the string means
    F2 = {"type": "fixed", "name": "F2", "size": 2}
    EN = {"type": "enum", "name": "EN", "symbols": ["ab", "cd"]}
    for k, (u, dflt) in enumerate([(["bytes", "string"], "hi\u00ff"), (["null", "bytes", "string"], "\u0000\u00e9z"), ([{"type": "bytes"}, "string"], "x"),
                                   (["string", "bytes"], "s\u00e9"), ([F2, "string"], "ab"), ([F2, "string"], "abc"), ([EN, "bytes"], "ab"),
                                   ([EN, "bytes"], "zz"), (["null", EN, F2, "string"], "cd"), (["null", F2, EN], "ab"), (["int", "bytes"], ""),
                                   ([{"type": "array", "items": "bytes"}, "null"], ["a", "\u00ff"]), ([{"type": "map", "values": F2}, "null"], {"k": "ab"})]):
        js = {"type": "record", "name": "UD%d" % k, "fields": [{"name": "a", "type": "int"}, {"name": "u", "type": u, "default": dflt}, {"name": "z", "type": "int", "default": 7}]}
        out.append((js, {"a": k}, {"union_string_default", "omitted_default"}))
    # fixed of size 0 and enum extremes
    out.append(({"type": "fixed", "name": "Z", "size": 0}, b"", {"fixed_zero"}))
    out.append(({"type": "enum", "name": "E", "symbols": ["A", "B", "C"]}, "C", {"enum_last"}))
    out.append(({"type": "record", "name": "Empty", "fields": []}, {}, {"record_no_fields"}))
    # records with each subset of defaulted fields omitted
    rec = {
        "type": "record",
        "name": "Dflt",
        "fields": [
            {"name": "a", "type": "int", "default": 0},
            {"name": "b", "type": "string", "default": ""},
            {"name": "c", "type": ["null", "long"], "default": None},
            {"name": "d", "type": {"type": "array", "items": "int"}, "default": []},
            {"name": "e", "type": "boolean", "default": False},
            {"name": "f", "type": "double", "default": 0.0},
        ],
    }
    full = {"a": 7, "b": "x", "c": 9, "d": [1], "e": True, "f": 2.5}
    names = list(full)
    for mask in range(64):
        d = {n: full[n] for i, n in enumerate(names) if not mask >> i & 1}
        out.append((rec, d, {"omit_mask", "falsy_defaults"}))
    # recursive through union / array / map
    tree = {
        "type": "record",
        "name": "Tree",
        "namespace": "rec",
        "fields": [
            {"name": "v", "type": "int"},
            {"name": "next", "type": ["null", "Tree"]},
            {"name": "kids", "type": {"type": "array", "items": "rec.Tree"}},
            {"name": "named", "type": {"type": "map", "values": "Tree"}},
        ],
    }
    leaf = {"v": 1, "next": None, "kids": [], "named": {}}
    mid = {"v": 2, "next": dict(leaf), "kids": [dict(leaf), dict(leaf)], "named": {"a": dict(leaf)}}
    top = {"v": 3, "next": mid, "kids": [mid, leaf], "named": {"m": mid, "": leaf}}
    out.append((tree, top, {"recursive", "recursive_via_array", "recursive_via_map"}))
    return out


def logical_edge_cases():
    """Logical values at the edges of their domains: plain in an array, and as
    a union branch that is the value type of a map in a record."""
    import datetime as _dt

    out = []

    D, tz, td = _dt.datetime, _dt.timezone, _dt.timedelta
    naive = [D(1970, 1, 1), D(1969, 12, 31, 23, 59, 59, 500000), D(1969, 12, 31, 23, 59, 59, 999999),
             D(1969, 12, 31, 23, 59, 59), D(1955, 11, 5, 6, 15, 30, 123456), D(1, 1, 1, 0, 0, 0, 1),
             D(1900, 1, 1, 0, 0, 0, 1), D(9999, 12, 31, 23, 59, 59, 999999), D(2514, 5, 30, 1, 53, 3, 999999),
             D(1970, 1, 1, 0, 0, 0, 999), D(2024, 2, 29, 12, 30, 15, 999999)]
    offs = [tz.utc, tz(td(hours=14)), tz(td(hours=-12)), tz(td(minutes=19, seconds=32)), tz(td(minutes=-1))]
    aware = [n.replace(tzinfo=offs[i % len(offs)]) for i, n in enumerate(naive) if 2 < n.year < 9998]
    edge = {
        ("int", "date"): [_dt.date(1, 1, 1), _dt.date(9999, 12, 31), _dt.date(1969, 12, 31), _dt.date(1970, 1, 1), _dt.date(1600, 2, 29)],
        ("int", "time-millis"): [_dt.time(0, 0, 0, 0), _dt.time(23, 59, 59, 999999), _dt.time(0, 0, 0, 999), _dt.time(12, 0, 0, 1000)],
        ("long", "time-micros"): [_dt.time(0, 0, 0, 0), _dt.time(23, 59, 59, 999999), _dt.time(0, 0, 0, 1), _dt.time(12, 0, 0, 1000)],
        ("long", "timestamp-millis"): aware,
        ("long", "timestamp-micros"): aware,
        ("long", "local-timestamp-millis"): naive,
        ("long", "local-timestamp-micros"): naive,
    }
    for (k, lt), vals in edge.items():
        t = {"type": k, "logicalType": lt}
        out.append(({"type": "array", "items": t}, list(vals), {"logical_edge"}))
        out.append(({"type": "record", "name": "LogE", "fields": [{"name": "seen", "type": {"type": "map", "values": ["null", t]}}]},
                    {"seen": {"k%d" % i: v for i, v in enumerate(vals + [None])}}, {"logical_edge"}))
    return out

"""Cosmetic rewrites of a JSON schema that must not change its parsing
canonical form (C13): documentation, aliases, defaults, order hints, custom
and logical-type attributes, attribute order, and the spelling of names
(namespace + name vs dotted, inherited vs spelled-out namespace, relative vs
qualified references, dict-form vs string-form primitives)."""
from ..ref.schema import PRIMS, split_name

LOGICAL_FOR = {
    "int": [{"logicalType": "date"}, {"logicalType": "time-millis"}],
    "long": [{"logicalType": "timestamp-millis"}, {"logicalType": "time-micros"}, {"logicalType": "local-timestamp-micros"}],
    "string": [{"logicalType": "uuid"}],
    "bytes": [{"logicalType": "decimal", "precision": 9, "scale": 2}],
}


def _shuffle_keys(d, rng):
    keys = list(d)
    rng.shuffle(keys)
    return {k: d[k] for k in keys}


class Rewriter:
    def __init__(self, rng, intensity=0.5):
        self.rng = rng
        self.p = intensity
        self.kinds = set()

    def hit(self, kind):
        if self.rng.random() < self.p:
            self.kinds.add(kind)
            return True
        return False

    def rewrite(self, js, ns=""):
        r = self.rng
        if isinstance(js, str):
            if js in PRIMS:
                if self.hit("prim_to_dict"):
                    out = {"type": js}
                    if js in LOGICAL_FOR and self.hit("logical_attr"):
                        out.update(r.choice(LOGICAL_FOR[js]))
                    if self.hit("custom_attr"):
                        out["x-note"] = [1, {"a": None}]
                    return _shuffle_keys(out, r)
                return js
            full = js if "." in js else (ns + "." + js if ns else js)
            space, _, short = full.rpartition(".")
            if "." in js and space == ns and self.hit("ref_relative"):
                return short
            if "." not in js and ns and self.hit("ref_qualified"):
                return full
            return js
        if isinstance(js, list):
            return [self.rewrite(b, ns) for b in js]
        t = js["type"]
        if t in PRIMS:
            if self.hit("dict_to_prim") and True:
                return t
            out = {"type": t}
            if t in LOGICAL_FOR and self.hit("logical_attr"):
                out.update(r.choice(LOGICAL_FOR[t]))
            if self.hit("doc"):
                out["doc"] = "rewritten"
            return _shuffle_keys(out, r)
        if t == "array":
            out = {"type": "array", "items": self.rewrite(js["items"], ns)}
            if self.hit("custom_attr"):
                out["java-class"] = "java.util.List"
            return _shuffle_keys(out, r)
        if t == "map":
            out = {"type": "map", "values": self.rewrite(js["values"], ns)}
            if self.hit("custom_attr"):
                out["x"] = 1
            return _shuffle_keys(out, r)
        # named types
        space, full = split_name(js, ns)
        short = full.rpartition(".")[2]
        out = {"type": t}
        spelled = False
        if space and self.hit("name_spelling"):
            how = r.choice(["dotted", "attr"])
            if how == "dotted":
                out["name"] = full
                if self.hit("ignored_namespace_attr"):
                    out["namespace"] = "ignored.ns"
            else:
                out["name"] = short
                out["namespace"] = space
            spelled = True
        if not spelled:
            out["name"] = js["name"]
            if "namespace" in js:
                out["namespace"] = js["namespace"]
            elif "." not in js["name"] and ns and self.hit("inherited_spelled_out"):
                out["namespace"] = ns
        if self.hit("doc"):
            out["doc"] = r.choice(["", "doc é", "line1\nline2"])
        elif "doc" in js and r.random() < 0.5:
            out["doc"] = js["doc"]
        if self.hit("aliases"):
            out["aliases"] = r.choice([[], ["Alias1"], ["x.Alias2", "Alias3"], [js["name"].rsplit(".", 1)[-1], "Alias4"]])
        if self.hit("custom_attr"):
            out["x-custom"] = {"k": "v"}
        if t == "enum":
            out["symbols"] = list(js["symbols"])
            if "default" in js and not self.hit("drop_enum_default"):
                out["default"] = js["default"]
            elif "default" not in js and self.hit("add_enum_default"):
                out["default"] = r.choice(js["symbols"])
        elif t == "fixed":
            out["size"] = js["size"]
            if js["size"] >= 4 and self.hit("logical_attr"):
                out.update({"logicalType": "decimal", "precision": 5, "scale": 1})
        else:
            fields = []
            for f in js.get("fields", []):
                nf = {"name": f["name"], "type": self.rewrite(f["type"], space)}
                if "default" in f and not self.hit("drop_default"):
                    nf["default"] = f["default"]
                if self.hit("doc"):
                    nf["doc"] = "field"
                if self.hit("order"):
                    nf["order"] = r.choice(["ascending", "descending", "ignore"])
                if self.hit("aliases"):
                    # former names: fresh ones, the field's own name, the name of a sibling
                    # (two fields that swapped names between versions)
                    sib = [g["name"] for g in js.get("fields", []) if g["name"] != f["name"]]
                    nf["aliases"] = r.choice([["was_" + f["name"]], [f["name"], "was_" + f["name"]], [r.choice(sib)] if sib else [f["name"]],
                                              ["was_" + f["name"], "was_" + f["name"]]])
                if self.hit("custom_attr"):
                    nf["meta"] = 3
                fields.append(_shuffle_keys(nf, r))
            out["fields"] = fields
        return _shuffle_keys(out, r)


def rewrite(js, rng, intensity=0.5):
    w = Rewriter(rng, intensity)
    return w.rewrite(js), w.kinds

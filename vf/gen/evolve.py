"""Evolution generator (C08): derive a reader schema from a writer schema by
1-4 compatible or incompatible steps at random positions and depths."""
import copy

from ..ref.schema import PRIMS, split_name
from ..ref import schema as RS

PROMO = {"int": ["long", "float", "double"], "long": ["float", "double"], "float": ["double"],
         "string": ["bytes"], "bytes": ["string"]}
DEMOTE = {"long": ["int"], "double": ["float", "long"], "float": ["int", "long"], "boolean": ["int"], "int": ["boolean", "string"],
          "string": ["int"], "bytes": ["long"], "null": ["int"]}
SAFE_DEFAULT = {"null": None, "boolean": True, "int": 7, "long": -9, "float": 0.5, "double": 2.5, "string": "dflt",
                "bytes": "\u00ff\u0000a"}


def positions(js, ns="", path=(), depth=0):
    yield path, js, ns, depth
    if isinstance(js, list):
        for i, b in enumerate(js):
            yield from positions(b, ns, path + (i,), depth + 1)
    elif isinstance(js, dict):
        t = js.get("type")
        if t == "array":
            yield from positions(js["items"], ns, path + ("items",), depth + 1)
        elif t == "map":
            yield from positions(js["values"], ns, path + ("values",), depth + 1)
        elif t == "record":
            space, _ = split_name(js, ns)
            for i, f in enumerate(js.get("fields", [])):
                yield from positions(f["type"], space, path + ("fields", i, "type"), depth + 1)


def get(js, path):
    for p in path:
        js = js[p]
    return js


def put(js, path, value):
    if not path:
        return value
    get(js, path[:-1])[path[-1]] = value
    return js


def definitions(js):
    out = {}
    for path, n, ns, d in positions(js):
        if isinstance(n, dict) and n.get("type") in ("record", "enum", "fixed"):
            out[split_name(n, ns)[1]] = n
    return out


def reinline(js):
    """Rebuild so that every named type is defined at its first use in document
    order (after a reordering moved a reference in front of its definition)."""
    defs = {k: copy.deepcopy(v) for k, v in definitions(js).items()}
    emitted = set()

    def walk(n, ns):
        if isinstance(n, str):
            if n in PRIMS:
                return n
            full = n if "." in n else (ns + "." + n if ns else n)
            if full not in defs:
                return n
            if full in emitted:
                return ref(full, ns)
            return define(defs[full], ns, full)
        if isinstance(n, list):
            return [walk(b, ns) for b in n]
        t = n.get("type")
        if t == "array":
            return dict(n, items=walk(n["items"], ns))
        if t == "map":
            return dict(n, values=walk(n["values"], ns))
        if t in ("record", "enum", "fixed"):
            full = split_name(n, ns)[1]
            if full in emitted:
                return ref(full, ns)
            return define(defs[full], ns, full)
        return n

    def ref(full, ns):
        if "." in full or ns == "":
            return full
        raise ValueError("null-namespace type not referable here")

    def define(d, ns, full):
        emitted.add(full)
        space, _, short = full.rpartition(".")
        out = {k: v for k, v in d.items() if k not in ("name", "namespace", "fields")}
        out["name"] = short
        out["namespace"] = space
        if d.get("type") == "record":
            out["fields"] = [dict(f, type=walk(f["type"], space)) for f in d.get("fields", [])]
        return out

    return walk(js, "")


class Evolver:
    def __init__(self, rng):
        self.rng = rng
        self.steps = []

    def evolve(self, wjs):
        r = self.rng
        for _try in range(8):
            self.steps = []
            js = copy.deepcopy(wjs)
            n = r.choice([0, 1, 1, 2, 2, 3, 4])
            if n == 0:
                self.steps = ["identity_copy"]
                return js, list(self.steps)
            try:
                for _ in range(n):
                    js = self.step(js)
                if "reorder_fields" in self.steps or "move_definition" in self.steps:
                    js = reinline(js)
                RS.build(js)
            except (RS.SchemaError, ValueError, KeyError, IndexError):
                continue
            return js, list(self.steps)
        self.steps = ["identity_copy"]
        return copy.deepcopy(wjs), ["identity_copy"]

    def step(self, js):
        r = self.rng
        pos = list(positions(js))
        r.shuffle(pos)
        kind = r.choice(["reorder_fields", "remove_field", "add_field_default", "add_field_nodefault", "rename_field_alias",
                         "rename_type_alias", "change_namespace", "promote", "demote", "enum_drop", "enum_add", "enum_reorder",
                         "fixed_size", "move_definition", "change_kind", "wrap_union", "unwrap_union", "union_reorder", "union_drop", "union_add",
                         "promote", "remove_field", "reorder_fields", "wrap_union", "define_earlier", "add_field_union_ref", "reuse_writer_alias"])
        recs = [(p, n, ns, d) for p, n, ns, d in pos if isinstance(n, dict) and n.get("type") == "record"]
        if kind in ("reorder_fields", "move_definition") and recs:
            p, n, ns, d = recs[0]
            if len(n.get("fields", [])) >= 2:
                r.shuffle(n["fields"])
                self.steps.append(kind)
                return js
        if kind == "remove_field" and recs:
            cands = [x for x in recs if x[1].get("fields")]
            if cands:
                p, n, ns, d = cands[0]
                i = r.randrange(len(n["fields"]))
                # a removed field ahead of a retained one tests stream alignment after skipping
                removed = n["fields"].pop(i)
                self.steps.append("remove_field")
                self.steps.append("removed_kind_" + kind_of(removed["type"]))
                return js
        if kind in ("add_field_default", "add_field_nodefault") and recs:
            p, n, ns, d = recs[0]
            t = r.choice(list(SAFE_DEFAULT) + ["arr", "map", "arrb"])
            if t in ("arr", "map", "arrb"):
                # collection-typed additions: their defaults are mutable objects of the schema
                ftype, dflts = {"arr": ({"type": "array", "items": "int"}, [[], [1, 2]]),
                                "map": ({"type": "map", "values": "string"}, [{}, {"k": "v"}]),
                                "arrb": ({"type": "array", "items": "bytes"}, [[], ["\u00ff", ""]])}[t]
                f = {"name": "added_" + t, "type": ftype}
                if kind == "add_field_default":
                    f["default"] = copy.deepcopy(r.choice(dflts))
            else:
                f = {"name": "added_" + t, "type": t}
                if kind == "add_field_default":
                    f["default"] = SAFE_DEFAULT[t]
            if any(x["name"] == f["name"] for x in n.get("fields", [])):
                return js
            n.setdefault("fields", []).insert(r.randint(0, len(n.get("fields", []))), f)
            self.steps.append(kind)
            return js
        if kind in ("define_earlier", "add_field_union_ref") and recs:
            cands = []
            for p, n, ns, d in recs:
                space = split_name(n, ns)[0]
                for i, f in enumerate(n.get("fields", [])):
                    t = f["type"]
                    if isinstance(t, dict) and t.get("type") in ("record", "enum", "fixed"):
                        full = split_name(t, space)[1]
                        if "." in full or not space:
                            cands.append((n, i, f, full))
            if cands:
                n, i, f, full = r.choice(cands)
                t = f["type"]
                if kind == "define_earlier":
                    # the reader defines the type in a new field in front and, where the writer
                    # has the definition, refers to it by name from inside a union
                    newf = {"name": "earlier_" + f["name"], "type": ["null", t], "default": None}
                    f["type"] = r.choice([["null", full], [full, "null"], ["string", full], [full]])
                    f.pop("default", None)
                    n["fields"].insert(r.randint(0, i), newf)
                else:
                    # a reader-only union whose default is meant for a branch behind a by-name
                    # branch that cannot hold it
                    ftype, dflt = {"record": ([full, "bytes"], "\u0000\u00ff"),
                                   "enum": (["null", full, {"type": "map", "values": "bytes"}], {"sig": "\u00fe\u0001"}),
                                   "fixed": ([full, {"type": "array", "items": "bytes"}], ["\u00ff", ""])}[t["type"]]
                    newf = {"name": "added_union_" + f["name"], "type": ftype, "default": dflt}
                    if any(x["name"] == newf["name"] for x in n["fields"]):
                        return js
                    n["fields"].insert(r.randint(i + 1, len(n["fields"])), newf)
                self.steps.append(kind)
                return js
        if kind == "reuse_writer_alias" and recs:
            # the reader drops a field that carries aliases of its own (left from an earlier rename
            # on the writer's side: they play no part in matching) and has a NEW field under one of
            # those former names: it is a reader-only field
            cands = [(n, f) for p, n, ns, d in recs for f in n.get("fields", []) if f.get("aliases")]
            if cands:
                n, f = r.choice(cands)
                t = f["type"] if isinstance(f["type"], str) and f["type"] in SAFE_DEFAULT else r.choice(["string", "long"])
                newf = {"name": f["aliases"][0], "type": t}
                if r.random() < 0.75:
                    newf["default"] = SAFE_DEFAULT[t]
                if any(x["name"] == newf["name"] for x in n["fields"]):
                    return js
                i = n["fields"].index(f)
                n["fields"][i] = newf
                self.steps.append(kind)
                return js
        if kind == "rename_field_alias" and recs:
            cands = [x for x in recs if x[1].get("fields")]
            if cands:
                p, n, ns, d = cands[0]
                f = r.choice(n["fields"])
                old = f["name"]
                f["name"] = "renamed_" + old
                f["aliases"] = r.choice([[old], ["zzz", old]])
                self.steps.append(kind)
                return js
        named = [(p, n, ns, d) for p, n, ns, d in pos if isinstance(n, dict) and n.get("type") in ("record", "enum", "fixed")]
        if kind in ("rename_type_alias", "change_namespace") and named:
            p, n, ns, d = named[0]
            space, full = split_name(n, ns)
            short = full.rpartition(".")[2]
            refs_exist = json_has_ref(js, full, short)
            if refs_exist:
                return js  # keep it simple: only rename types that are not referenced by name
            if kind == "rename_type_alias":
                n["name"] = "Renamed" + short
                n["namespace"] = space
                n["aliases"] = [r.choice([short, full])]
            else:
                n["name"] = short
                n["namespace"] = r.choice(["other.ns", "zz"]) if space != "zz" else "other.ns"
                if space == "" or n["namespace"] == "":
                    return js
            self.steps.append(kind)
            return js
        prims = [(p, n, ns, d) for p, n, ns, d in pos if isinstance(n, str) and n in PRIMS]
        if kind == "promote" and prims:
            cands = [x for x in prims if x[1] in PROMO]
            if cands:
                p, n, ns, d = cands[0]
                new = r.choice(PROMO[n])
                if isinstance(get(js, p[:-1]) if p else None, list) and new in get(js, p[:-1]):
                    return js
                self.steps.append("promote_%s_%s" % (n, new))
                self.steps.append("promote")
                if p and p[-1] == "type":
                    get(js, p[:-1]).pop("default", None)
                return put(js, p, new)
        if kind == "demote" and prims:
            cands = [x for x in prims if x[1] in DEMOTE]
            if cands:
                p, n, ns, d = cands[0]
                new = r.choice(DEMOTE[n])
                if isinstance(get(js, p[:-1]) if p else None, list) and new in get(js, p[:-1]):
                    return js
                self.steps.append("demote")
                if p and p[-1] == "type":
                    get(js, p[:-1]).pop("default", None)
                return put(js, p, new)
        enums = [x for x in named if x[1]["type"] == "enum"]
        if kind.startswith("enum_") and enums:
            p, n, ns, d = enums[0]
            syms = list(n["symbols"])
            if kind == "enum_drop" and len(syms) >= 2:
                drop = r.choice(syms)
                syms.remove(drop)
                n["symbols"] = syms
                if r.random() < 0.5:
                    n["default"] = r.choice(syms)
                    self.steps.append("enum_drop_with_default")
                else:
                    n.pop("default", None)
                    self.steps.append("enum_drop_no_default")
                return js
            if kind == "enum_add":
                n["symbols"] = syms + ["NEWSYM"]
                self.steps.append(kind)
                return js
            if kind == "enum_reorder" and len(syms) >= 2:
                r.shuffle(syms)
                n["symbols"] = syms
                if "default" in n and n["default"] not in syms:
                    n.pop("default")
                self.steps.append(kind)
                return js
        if kind == "change_kind" and named:
            p, n, ns, d = named[0]
            space, full = split_name(n, ns)
            if not json_has_ref(js, full, full.rpartition(".")[2]):
                new = r.choice([k for k in ("record", "enum", "fixed") if k != n["type"]])
                repl = {"type": new, "name": full.rpartition(".")[2], "namespace": space}
                if new == "record":
                    repl["fields"] = []
                elif new == "enum":
                    repl["symbols"] = ["A", "B"]
                else:
                    repl["size"] = 2
                if p and p[-1] == "type":
                    get(js, p[:-1]).pop("default", None)
                self.steps.append(kind)
                return put(js, p, repl)
        fixeds = [x for x in named if x[1]["type"] == "fixed"]
        if kind == "fixed_size" and fixeds:
            p, n, ns, d = fixeds[0]
            n["size"] = n["size"] + 1
            self.steps.append(kind)
            return js
        nonunion = [(p, n, ns, d) for p, n, ns, d in pos if not isinstance(n, list) and not (p and isinstance(get(js, p[:-1]), list))]
        if kind == "wrap_union" and nonunion:
            p, n, ns, d = nonunion[0]
            how = r.choice(["null_first", "null_last", "other_first", "single"])
            other = "string" if kind_of(n) != "string" else "int"
            new = {"null_first": ["null", n], "null_last": [n, "null"], "other_first": [other, n], "single": [n]}[how]
            if kind_of(n) == "null" and "null" in new[:1] + new[2:]:
                new = [n]
            # a field default must still fit some branch: drop it to stay valid
            if p and p[-1] == "type":
                get(js, p[:-1]).pop("default", None)
            self.steps.append(kind)
            return put(js, p, new)
        unions = [(p, n, ns, d) for p, n, ns, d in pos if isinstance(n, list) and n]
        if kind == "unwrap_union" and unions:
            p, n, ns, d = unions[0]
            if p and p[-1] == "type":
                get(js, p[:-1]).pop("default", None)
            self.steps.append(kind)
            return put(js, p, r.choice(n))
        if kind == "union_reorder" and unions:
            p, n, ns, d = unions[0]
            if len(n) >= 2:
                r.shuffle(n)
                if p and p[-1] == "type":
                    get(js, p[:-1]).pop("default", None)
                self.steps.append(kind)
                return js
        if kind == "union_drop" and unions:
            p, n, ns, d = unions[0]
            if len(n) >= 2:
                n.pop(r.randrange(len(n)))
                if p and p[-1] == "type":
                    get(js, p[:-1]).pop("default", None)
                self.steps.append(kind)
                return js
        if kind == "union_add" and unions:
            p, n, ns, d = unions[0]
            have = {kind_of(b) for b in n}
            cands = [x for x in ("null", "boolean", "long", "double", "string", "bytes") if x not in have]
            if cands:
                n.insert(r.randint(0, len(n)), r.choice(cands))
                if p and p[-1] == "type":
                    get(js, p[:-1]).pop("default", None)
                self.steps.append(kind)
                return js
        return js


def decorate_field_aliases(js, rng, p=0.4):
    """Aliases on the fields of a (writer) schema: former names of the field."""
    js = copy.deepcopy(js)
    for path, n, ns, d in positions(js):
        if isinstance(n, dict) and n.get("type") == "record":
            names = {f["name"] for f in n.get("fields", [])}
            for f in n.get("fields", []):
                if rng.random() < p and ("was_" + f["name"]) not in names:
                    f["aliases"] = ["was_" + f["name"]] + (["older_" + f["name"]] if rng.random() < 0.3 else [])
    return js


def kind_of(t):
    if isinstance(t, str):
        return t if t in PRIMS else "ref"
    if isinstance(t, list):
        return "union"
    return t.get("type")


def json_has_ref(js, full, short):
    for p, n, ns, d in positions(js):
        if isinstance(n, str) and n not in PRIMS:
            f = n if "." in n else (ns + "." + n if ns else n)
            if f == full:
                return True
    return False

"""Random specification-valid Avro schemas (raw JSON form) with feature tags.

Pure function of the ``random.Random`` instance handed in."""
import copy

from ..ref.schema import PRIMS, split_name

NAME_POOL = ["R", "S", "T", "E", "F", "Node", "Leaf", "Rec", "Pair", "U1"]
NS_POOL = ["", "a", "a.b", "c"]
FIELD_POOL = ["f", "g", "h", "x", "y", "id", "val", "next", "kids", "m", "type", "name"]
SYM_POOL = ["A", "B", "C", "D", "E_", "F1", "G", "_h"]
LOGICALS = [
    ("int", "date"),
    ("int", "time-millis"),
    ("long", "time-micros"),
    ("long", "timestamp-millis"),
    ("long", "timestamp-micros"),
    ("long", "local-timestamp-millis"),
    ("long", "local-timestamp-micros"),
    ("string", "uuid"),
    ("bytes", "decimal"),
    ("fixed", "decimal"),
]

DEFAULT_OPTS = dict(
    max_depth=4,
    max_nodes=30,
    logical=False,
    defaults=True,
    bytes_defaults=0.0,  # probability that a bytes/fixed field gets a default
    recursion=True,
    dict_prims=0.08,
    docs=True,
    refs=True,
    namespaces=True,
    top_kinds=None,  # restrict top-level kind
    float_int_defaults=False,
    union_default_any=False,
    zero_fields=0.1,
    fixed_zero=0.1,
    null_ns_inside=0.0,  # probability of keeping a null-namespace type nested in a namespace
)


class SchemaGen:
    def __init__(self, rng, **opts):
        self.rng = rng
        self.o = dict(DEFAULT_OPTS)
        self.o.update(opts)
        self.defined = {}  # fullname -> (kind, json)
        self.features = set()
        self.nodes = 0
        self.open_records = []  # (fullname, ns) of enclosing records
        self.counter = 0

    # ------------------------------------------------------------ helpers --
    def _fresh_name(self, ns):
        """Pick (json name attrs, namespace, fullname) for a new named type."""
        r = self.rng
        for _ in range(50):
            base = r.choice(NAME_POOL)
            if r.random() < 0.2:
                self.counter += 1
                base = "%s%d" % (base, self.counter)
            js = {}
            if not self.o["namespaces"]:
                how = "inherit"
            else:
                how = r.choice(["inherit", "inherit", "attr", "dotted", "attr_same"])
            if how == "inherit":
                js["name"] = base
            elif how == "attr":
                js["name"] = base
                js["namespace"] = r.choice(NS_POOL)
            elif how == "attr_same":
                js["name"] = base
                js["namespace"] = ns
            else:
                space = r.choice(NS_POOL[1:])
                js["name"] = space + "." + base
                if r.random() < 0.3:
                    js["namespace"] = r.choice(NS_POOL)  # ignored: dotted name wins
                    self.features.add("dotted_overrides_ns")
            space, full = split_name(js, ns)
            if full in self.defined or full in PRIMS:
                continue
            if space == "" and ns != "":
                # a null-namespace type nested in a namespaced one (A21/A23)
                if self.rng.random() >= self.o["null_ns_inside"]:
                    continue
                self.features.add("null_ns_inside_ns")
            if how == "inherit" and ns:
                self.features.add("ns_inherited")
            if how == "dotted":
                self.features.add("ns_dotted")
            if how.startswith("attr"):
                self.features.add("ns_attr")
            return js, space, full
        self.counter += 1
        js = {"name": "N%d" % self.counter}
        space, full = split_name(js, ns)
        return js, space, full

    def _ref_spelling(self, full, ns):
        """A by-name reference to ``full`` valid inside namespace ``ns``."""
        space, _, short = full.rpartition(".")
        if space == ns and self.rng.random() < 0.5:
            if ns:
                self.features.add("ref_relative")
            return short
        if "." in full:
            self.features.add("ref_qualified")
            return full
        if ns == "":
            return full
        return None  # null-namespace type is not referable from a namespace

    def _referable(self, ns, kinds=None):
        out = []
        for full, (kind, _js) in self.defined.items():
            if kinds and kind not in kinds:
                continue
            if any(full == o[0] for o in self.open_records):
                continue
            if "." not in full and ns != "":
                continue
            out.append(full)
        return out

    # ------------------------------------------------------------- schema --
    def schema(self):
        kinds = self.o["top_kinds"]
        js = self._type("", 0, top=True, kinds=kinds)
        return js

    def _prim(self, allow_logical=True):
        r = self.rng
        if self.o["logical"] and allow_logical and r.random() < 0.3:
            base, lt = r.choice([x for x in LOGICALS if x[0] != "fixed"])
            js = {"type": base, "logicalType": lt}
            if lt == "decimal":
                p = r.choice([r.randint(1, 20), r.randint(1, 38)])
                js["precision"] = p
                js["scale"] = r.randint(0, p)
                if r.random() < 0.25:
                    del js["scale"]  # an omitted scale is zero
            self.features.add("logical")
            return js
        p = r.choice(PRIMS)
        if r.random() < self.o["dict_prims"]:
            self.features.add("dict_primitive")
            js = {"type": p}
            if self.o["docs"] and r.random() < 0.3:
                js["doc"] = "prim"
            return js
        return p

    def _type(self, ns, depth, top=False, kinds=None, in_union=False, union_seen=None):
        r = self.rng
        self.nodes += 1
        budget_left = self.nodes < self.o["max_nodes"] and depth < self.o["max_depth"]
        choices = []
        if kinds:
            choices = list(kinds)
        else:
            choices = ["prim"] * (3 if top else 5)
            if budget_left:
                choices += ["record"] * 4 + ["enum", "fixed", "array", "array", "map", "map"]
                if not in_union:
                    choices += ["union"] * 3
            else:
                choices += ["enum", "fixed"]
            if self.o["refs"] and self._referable(ns):
                choices += ["ref"] * 3
            if self.o["recursion"] and self.open_records and in_union:
                choices += ["recurse"] * 2
        kind = r.choice(choices)
        if kind == "prim":
            return self._prim()
        if kind == "ref":
            cand = self._referable(ns)
            if cand:
                full = r.choice(cand)
                sp = self._ref_spelling(full, ns)
                if sp is not None:
                    self.features.add("by_name_ref")
                    return sp
            return self._prim()
        if kind == "recurse":
            full, _rns = r.choice(self.open_records)
            sp = self._ref_spelling(full, ns)
            if sp is not None:
                self.features.add("recursive")
                return sp
            return self._prim()
        if kind == "enum":
            js, _space, full = self._fresh_name(ns)
            n = r.randint(1, 6)
            syms = r.sample(SYM_POOL, n)
            js.update(type="enum", symbols=syms)
            if r.random() < 0.3:
                js["default"] = r.choice(syms)
                self.features.add("enum_default")
            self._decorate(js)
            self.defined[full] = ("enum", js)
            return js
        if kind == "fixed":
            js, _space, full = self._fresh_name(ns)
            size = 0 if r.random() < self.o["fixed_zero"] else r.randint(1, 20)
            if size == 0:
                self.features.add("fixed_zero")
            js.update(type="fixed", size=size)
            if self.o["logical"] and size >= 1 and r.random() < 0.3:
                import math

                maxp = int(math.floor(math.log10(2) * (8 * size - 1)))
                if maxp >= 1:
                    p = r.randint(1, maxp)
                    js.update(logicalType="decimal", precision=p, scale=r.randint(0, p))
                    if r.random() < 0.25:
                        del js["scale"]
                    self.features.add("logical")
            self._decorate(js)
            self.defined[full] = ("fixed", js)
            return js
        if kind == "array":
            js = {"type": "array"}
            js["items"] = self._item_type(ns, depth + 1, "array")
            return js
        if kind == "map":
            js = {"type": "map"}
            js["values"] = self._item_type(ns, depth + 1, "map")
            return js
        if kind == "union":
            return self._union(ns, depth + 1)
        if kind == "record":
            return self._record(ns, depth)
        raise ValueError(kind)

    def _item_type(self, ns, depth, via):
        r = self.rng
        if self.o["recursion"] and self.open_records and r.random() < 0.15:
            full, _ = r.choice(self.open_records)
            sp = self._ref_spelling(full, ns)
            if sp is not None:
                self.features.add("recursive")
                self.features.add("recursive_via_" + via)
                return sp
        return self._type(ns, depth)

    def _union(self, ns, depth):
        r = self.rng
        n = r.choice([1, 2, 2, 2, 3, 3, 4, 5])
        seen = set()
        fams = []
        out = []
        tries = 0
        while len(out) < n and tries < 30:
            tries += 1
            snap = dict(self.defined)
            b = self._type(ns, depth, in_union=True)
            key = self._union_key(b, ns)
            fam = self._family(b, ns)
            if key in seen or (fam is not None and self._family_conflict(fam, fams)):
                self.defined = snap  # forget definitions of the discarded branch
                continue
            if fam is not None:
                fams.append(fam)
            seen.add(key)
            out.append(b)
        if r.random() < 0.4 and "null" not in seen and len(out) < 5:
            out.insert(r.randrange(len(out) + 1), "null")
            seen.add("null")
        if not any(isinstance(b, str) and b in PRIMS for b in out):
            opened = {o[0] for o in self.open_records}
            if any(k.startswith("named:") and k[6:] in opened for k in seen):
                # a recursive branch needs a terminating alternative
                out.insert(r.randrange(len(out) + 1), "null")
        self.features.add("union%d" % len(out))
        return out

    FAMILIES = {"int": "num", "long": "num", "float": "num", "double": "num",
                "string": "str", "enum": "str", "bytes": "byt", "fixed": "byt"}

    def _family(self, b, ns):
        """(family, is_logical) of a branch when logical types are in play: a raw
        value must never be able to land in a logical branch through union
        probing (its read-back conversion has a restricted domain)."""
        if not self.o["logical"]:
            return None
        t, _full = self._resolve(b, ns) if isinstance(b, str) else (b, None)
        k = t if isinstance(t, str) else t["type"]
        fam = self.FAMILIES.get(k)
        if fam is None:
            return None
        return (fam, isinstance(t, dict) and "logicalType" in t)

    @staticmethod
    def _family_conflict(fam, fams):
        for f, lg in fams:
            if f == fam[0] and (lg or fam[1]):
                return True
        return False

    def _union_key(self, b, ns):
        if isinstance(b, str):
            if b in PRIMS:
                return b
            return "named:" + (b if "." in b else (ns + "." + b if ns else b))
        t = b["type"]
        if t in ("record", "enum", "fixed"):
            return "named:" + split_name(b, ns)[1]
        return t

    def _record(self, ns, depth):
        r = self.rng
        js, space, full = self._fresh_name(ns)
        js["type"] = "record"
        self.defined[full] = ("record", js)
        self.open_records.append((full, space))
        nf = 0 if r.random() < self.o["zero_fields"] else r.randint(1, 5)
        if nf == 0:
            self.features.add("record_no_fields")
        names = r.sample(FIELD_POOL, nf)
        fields = []
        for fname in names:
            f = {"name": fname}
            f["type"] = self._type(space, depth + 1)
            if self.o["defaults"] and r.random() < 0.35:
                d = self._default_for(f["type"], space)
                if d is not _NONE:
                    f["default"] = d
                    self.features.add("field_default")
            if self.o["docs"]:
                if r.random() < 0.15:
                    f["doc"] = "field doc"
                if r.random() < 0.1:
                    f["order"] = r.choice(["ascending", "descending", "ignore"])
                if r.random() < 0.1:
                    f["aliases"] = ["old_" + fname]
                if r.random() < 0.05:
                    f["custom"] = {"k": [1, 2]}
            if r.random() < 0.5:
                f = dict(reversed(list(f.items())))
            fields.append(f)
        js["fields"] = fields
        self.open_records.pop()
        self._decorate(js)
        return js

    def _decorate(self, js):
        r = self.rng
        if not self.o["docs"]:
            return
        if r.random() < 0.2:
            js["doc"] = "a doc"
        if r.random() < 0.1:
            js["aliases"] = ["Old" + js["name"].rsplit(".", 1)[-1]]
        if r.random() < 0.05:
            js["x-custom"] = 7

    # ------------------------------------------------------------ defaults --
    def _resolve(self, t, ns):
        """JSON type → defining JSON (follow one by-name reference)."""
        if isinstance(t, str) and t not in PRIMS:
            full = t if "." in t else (ns + "." + t if ns else t)
            return self.defined[full][1], full
        return t, None

    def _shallow_fits(self, d, t, ns):
        """Could the JSON value d be a default of type t, judged by its JSON type
        (strings: also the fixed size and the enum symbols)."""
        if isinstance(t, list):
            return any(self._shallow_fits(d, b, ns) for b in t)
        if isinstance(t, str) and t not in PRIMS:
            try:
                t, _full = self._resolve(t, ns)
            except KeyError:
                return True
        k = t if isinstance(t, str) else t["type"]
        if d is None:
            return k == "null"
        if isinstance(d, bool):
            return k == "boolean"
        if isinstance(d, int):
            return k in ("int", "long", "float", "double")
        if isinstance(d, float):
            return k in ("float", "double")
        if isinstance(d, str):
            if k == "fixed":
                return t["size"] == len(d)
            if k == "enum":
                return d in t["symbols"]
            return k in ("string", "bytes")
        if isinstance(d, list):
            return k == "array"
        if isinstance(d, dict):
            return k in ("record", "error", "map")
        return False

    def _default_for(self, t, ns, depth=0):
        r = self.rng
        if isinstance(t, list):
            if self.o["union_default_any"] and r.random() < 0.3:
                i = r.randrange(len(t))
                d = self._default_for(t[i], ns, depth)
                # a default meant for branch i must not already fit an earlier branch by its
                # JSON type (the specification gives it to the first branch it matches)
                if d is not _NONE and not any(self._shallow_fits(d, t[j], ns) for j in range(i)):
                    if i:
                        self.features.add("union_default_nonfirst")
                    return d
            return self._default_for(t[0], ns, depth)
        full = None
        if isinstance(t, str) and t not in PRIMS:
            ref_full = t if "." in t else (ns + "." + t if ns else t)
            if any(ref_full == o[0] for o in self.open_records):
                return _NONE  # no default for a recursive position
            t, full = self._resolve(t, ns)
        k = t if isinstance(t, str) else t["type"]
        isdict = isinstance(t, dict)
        if isdict and "logicalType" in t:
            return _NONE
        if k == "null":
            return None
        if k == "boolean":
            return r.random() < 0.5
        if k == "int":
            return r.choice([0, 1, -1, 42, 2**31 - 1, -(2**31)])
        if k == "long":
            return r.choice([0, -5, 2**40, 2**63 - 1, -(2**63)])
        if k in ("float", "double"):
            if isdict and not self.o["float_int_defaults"]:
                return r.choice([0.5, -2.0, 1e10])
            if self.o["float_int_defaults"]:
                return r.choice([0.5, -2.0, 3, 0])
            return r.choice([0.5, -2.0, 1e10, 0.0])
        if k == "string":
            return r.choice(["", "abc", "déf", "中"])
        if k == "bytes":
            if r.random() < self.o["bytes_defaults"]:
                self.features.add("bytes_default")
                return r.choice(["", "ab", "ÿ\u0000"])
            return _NONE
        if k == "fixed":
            if r.random() < self.o["bytes_defaults"]:
                self.features.add("bytes_default")
                return "é" * t["size"]
            return _NONE
        if k == "enum":
            return r.choice(t["symbols"])
        if k == "array":
            if r.random() < 0.5 or depth > 2:
                return []
            d = self._default_for(t["items"], ns, depth + 1)
            return [] if d is _NONE else [d, copy.deepcopy(d)]
        if k == "map":
            if r.random() < 0.5 or depth > 2:
                return {}
            d = self._default_for(t["values"], ns, depth + 1)
            return {} if d is _NONE else {"k": d}
        if k == "record":
            if depth > 2:
                return _NONE
            space = split_name(t, ns)[0] if full is None else full.rpartition(".")[0]
            out = {}
            for f in t.get("fields", []):
                d = self._default_for(f["type"], space, depth + 1)
                if d is _NONE:
                    return _NONE
                out[f["name"]] = d
            self.features.add("record_default")
            return out
        return _NONE


_NONE = object()


def gen_schema(rng, **opts):
    g = SchemaGen(rng, **opts)
    js = g.schema()
    return js, g.features


def errorize(js, rng, p=0.6):
    """The same schema with some records declared with the kind "error" (the record-like
    kind of protocol declarations; encoded and named exactly like a record).  Records that
    are union branches (in place or by reference) are left alone: whether an "error" branch
    takes part in the most-matching-fields rule of C09 is not something the statements fix
    (fastavro treats it as a non-record branch: first match wins)."""
    js = copy.deepcopy(js)
    in_unions = set()

    def scan(n, ns):
        if isinstance(n, list):
            for b in n:
                if isinstance(b, str):
                    in_unions.add(b.rsplit(".", 1)[-1])
                elif isinstance(b, dict) and "name" in b:
                    in_unions.add(b["name"].rsplit(".", 1)[-1])
                scan(b, ns)
        elif isinstance(n, dict):
            for k in ("items", "values"):
                if k in n:
                    scan(n[k], ns)
            for f in n.get("fields", []) if isinstance(n.get("fields"), list) else []:
                scan(f["type"], ns)
            if isinstance(n.get("type"), (dict, list)):
                scan(n["type"], ns)

    scan(js, "")

    def walk(n):
        if isinstance(n, list):
            return [walk(b) for b in n]
        if isinstance(n, dict):
            out = dict(n)
            t = n.get("type")
            if t == "record":
                if rng.random() < p and n["name"].rsplit(".", 1)[-1] not in in_unions:
                    out["type"] = "error"
                out["fields"] = [dict(f, type=walk(f["type"])) for f in n["fields"]]
            elif t == "array":
                out["items"] = walk(n["items"])
            elif t == "map":
                out["values"] = walk(n["values"])
            return out
        return n
    return walk(js)

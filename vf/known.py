"""Mechanism classifiers for the open entries of known_findings.json.

A violation is attributed to a known finding only by a counterfactual re-test:
the trigger feature of the mechanism must be present in the input AND the
neutralised input (the trigger removed, everything else kept) must pass.
Anything else stays a VIOLATION.  Keys returned here only count when the
committed file lists them with status 'open' (vf/run.py)."""
import copy
import json
import os

_HERE = os.path.dirname(os.path.dirname(os.path.abspath(__file__)))


_OPEN_CACHE = {}


def _open_keys(pid):
    if pid not in _OPEN_CACHE:
        try:
            with open(os.path.join(_HERE, "known_findings.json")) as f:
                _OPEN_CACHE[pid] = {e["key"] for e in json.load(f)["findings"] if e.get("status") == "open" and e.get("property") == pid}
        except Exception:
            _OPEN_CACHE[pid] = set()
    return _OPEN_CACHE[pid]


CLASSIFIERS = {}
WITNESSES = {}


def classifier(pid, key):
    def deco(fn):
        CLASSIFIERS.setdefault(pid, []).append((key, fn))
        return fn
    return deco


def witness(pid, key, value):
    WITNESSES.setdefault(pid, {})[key] = value


def witnesses(pid):
    keys = _open_keys(pid)
    return {k: v for k, v in WITNESSES.get(pid, {}).items() if k in keys}


def classify(pid, fa, violation, case, recs, one_case, sh, rng):
    """Returns the key of the open known finding this violation belongs to, or None."""
    keys = _open_keys(pid)
    for key, fn in CLASSIFIERS.get(pid, []):
        if key not in keys:
            continue
        try:
            if fn(fa, violation, case, recs, one_case, sh, rng):
                return key
        except Exception:
            continue
    return None


# ======================================================================
# schema surgery shared by the classifiers
# ======================================================================
from .ref.schema import PRIMS, split_name  # noqa: E402


def _walk_defs(js, ns="", out=None):
    if out is None:
        out = {}
    if isinstance(js, list):
        for b in js:
            _walk_defs(b, ns, out)
    elif isinstance(js, dict):
        t = js.get("type")
        if t in ("record", "enum", "fixed"):
            space, full = split_name(js, ns)
            out[full] = js
            if t == "record":
                for f in js.get("fields", []):
                    _walk_defs(f["type"], space, out)
        elif t == "array":
            _walk_defs(js["items"], ns, out)
        elif t == "map":
            _walk_defs(js["values"], ns, out)
    return out


def schema_traits(js):
    """recursive: some reference points to an enclosing record;
    reused_record: some record is referenced by name (met twice by a grammar builder);
    fieldless: some record has no fields."""
    defs = _walk_defs(js)
    traits = set()

    def walk(n, ns, opened):
        if isinstance(n, str):
            if n in PRIMS:
                return
            full = n if "." in n else (ns + "." + n if ns else n)
            d = defs.get(full)
            if d is not None and d.get("type") == "record":
                traits.add("recursive" if full in opened else "reused_record")
            return
        if isinstance(n, list):
            for b in n:
                walk(b, ns, opened)
            return
        t = n.get("type")
        if t == "array":
            walk(n["items"], ns, opened)
        elif t == "map":
            walk(n["values"], ns, opened)
        elif t == "record":
            space, full = split_name(n, ns)
            if not n.get("fields"):
                traits.add("fieldless")
            for f in n.get("fields", []):
                walk(f["type"], space, opened + [full])

    walk(js, "", [])
    return traits


def pad_fieldless(js):
    """Give every field-less record one defaulted field (data {} still conforms)."""
    js = copy.deepcopy(js)

    def walk(n):
        if isinstance(n, list):
            for b in n:
                walk(b)
        elif isinstance(n, dict):
            t = n.get("type")
            if t == "record":
                if not n.get("fields"):
                    n["fields"] = [{"name": "vf_pad", "type": "int", "default": 0}]
                for f in n["fields"]:
                    walk(f["type"])
            elif t == "array":
                walk(n["items"])
            elif t == "map":
                walk(n["values"])

    walk(js)
    return js


def rename_all(js, return_map=False):
    """Rename every named type to a fixed-width name in the null namespace so
    that no type name is a substring of another name or of a primitive."""
    defs = _walk_defs(js)
    new = {full: "Nq%04dz" % i for i, full in enumerate(sorted(defs))}
    if return_map:
        return rename_all(js), new

    def walk(n, ns):
        if isinstance(n, str):
            if n in PRIMS:
                return n
            full = n if "." in n else (ns + "." + n if ns else n)
            return new.get(full, n)
        if isinstance(n, list):
            return [walk(b, ns) for b in n]
        t = n.get("type")
        out = {k: v for k, v in n.items() if k not in ("namespace", "aliases")}
        if t == "array":
            out["items"] = walk(n["items"], ns)
        elif t == "map":
            out["values"] = walk(n["values"], ns)
        elif t in ("record", "enum", "fixed"):
            space, full = split_name(n, ns)
            out["name"] = new[full]
            if t == "record":
                out["fields"] = [dict({k: v for k, v in f.items() if k != "aliases"}, type=walk(f["type"], space)) for f in n.get("fields", [])]
        return out

    return walk(js, "")


def derecurse(js):
    """Replace every reference to an enclosing record by "null"."""
    defs = _walk_defs(js)

    def dedup(lst):
        seen, out = set(), []
        for b in lst:
            key = json.dumps(b, sort_keys=True) if not isinstance(b, str) else b
            if key in seen:
                continue
            seen.add(key)
            out.append(b)
        return out

    def walk(n, ns, opened):
        if isinstance(n, str):
            if n in PRIMS:
                return n
            full = n if "." in n else (ns + "." + n if ns else n)
            return "null" if full in opened else n
        if isinstance(n, list):
            return dedup([walk(b, ns, opened) for b in n])
        t = n.get("type")
        out = dict(n)
        if t == "array":
            out["items"] = walk(n["items"], ns, opened)
        elif t == "map":
            out["values"] = walk(n["values"], ns, opened)
        elif t == "record":
            space, full = split_name(n, ns)
            fields = []
            for f in n.get("fields", []):
                g = dict(f, type=walk(f["type"], space, opened + [full]))
                g.pop("default", None)
                fields.append(g)
            out["fields"] = fields
        return out

    return walk(js, "", [])


def has_nested_union(t, top=True, defs=None, ns="", seen=None):
    """Does a field type contain a union below its top level?  (references to
    named types are followed when `defs` = _walk_defs(schema) is given)"""
    seen = seen or set()
    if isinstance(t, str):
        if t in PRIMS or defs is None:
            return False
        full = t if "." in t else (ns + "." + t if ns else t)
        if full in seen or full not in defs:
            for cand in defs:
                if cand.rpartition(".")[2] == t and cand not in seen:
                    full = cand
                    break
            else:
                return False
        return has_nested_union(defs[full], top, defs, full.rpartition(".")[0], seen | {full})
    if isinstance(t, list):
        return (not top) or any(has_nested_union(b, False, defs, ns, seen) for b in t)
    if isinstance(t, dict):
        k = t.get("type")
        if k == "array":
            return has_nested_union(t["items"], False, defs, ns, seen)
        if k == "map":
            return has_nested_union(t["values"], False, defs, ns, seen)
        if k == "record":
            try:
                space = split_name(t, ns)[0]
            except Exception:
                space = ns
            return any(has_nested_union(f["type"], False, defs, space, seen) for f in t.get("fields", []))
    return False


# ======================================================================
# C15 — JSON codec
# ======================================================================
_C15_SIG_GRAMMAR = ("json-writer-raised", "json-reader-raised", "json-roundtrip-differs", "default-fill-raised", "default-not-filled", "json-text-differs")


def _c15_retest(fa, one_case, sh, js, recs, seed, opts=None):
    import random
    from .ref import schema as RS

    node, _env = RS.build(js)
    case = {"schema": js, "node": node, "features": set()}
    return one_case(sh.__class__("C15", {}), fa, random.Random(seed), case, recs, **(opts or {}))


def _c15_neutralised_passes(fa, v, case, recs, one_case, sh, seed):
    """All applicable neutralising edits at once; True when the case then passes."""
    import random
    from .ref import schema as RS
    from .gen.datum import DatumGen
    from .ref import conform as RC

    js = case["schema"]
    key = ("c15n", json.dumps(js, sort_keys=True, default=str)[:200], seed)
    tr = schema_traits(js)
    js2 = js
    if "recursive" in tr:
        js2 = derecurse(js2)
    if {"recursive", "reused_record"} & tr:
        js2 = rename_all(js2)
    # (records without fields are no longer padded: that finding is repaired, a6f8977)
    opts = {"skip_nested_union_defaults": True}
    if "recursive" not in tr:
        return _c15_retest(fa, one_case, sh, js2, recs, seed, opts) is None
    node, _env = RS.build(js2)
    r = random.Random(seed)
    n = 0
    for _ in range(80):
        d = DatumGen(r, size_budget=30, big=0.0, mappings=0.0).gen(node)
        if RC.float_out_of_range(node, d):
            continue
        n += 1
        if _c15_retest(fa, one_case, sh, js2, [d], seed, opts) is not None:
            return False
        if n >= 3:
            break
    return n > 0


def _deleted_has_nested_union(v, js):
    info = v[2]
    deleted = info.get("deleted", [])
    if not isinstance(js, dict):
        return False
    defs = _walk_defs(js)
    try:
        space = split_name(js, "")[0]
    except Exception:
        space = ""
    fields = {f["name"]: f for f in js.get("fields", [])}
    return any(has_nested_union(fields[n]["type"], True, defs, space) for n in deleted if n in fields)


@classifier("C15", "json-default-with-nested-union")
def _c15_default_union(fa, v, case, recs, one_case, sh, seed):
    """JSON decoder: a field default is handed to the decoder in its plain
    (schema) form; unions nested inside the default are not wrapped as the
    decoder expects -> AttributeError / 'x is not in list' when the key is absent."""
    if v[0] not in ("default-fill-raised", "default-not-filled"):
        return False
    if not _deleted_has_nested_union(v, case["schema"]):
        return False
    return _c15_neutralised_passes(fa, v, case, recs, one_case, sh, seed)


@classifier("C15", "json-fieldless-record")
def _c15_fieldless(fa, v, case, recs, one_case, sh, seed):
    """JSON encoder: a record that makes no encoder call (no fields) leaves its
    grammar symbol unexpanded -> 'Internal Parser Exception' / misaligned reads."""
    tr = schema_traits(case["schema"])
    if "fieldless" not in tr or v[0] not in _C15_SIG_GRAMMAR:
        return False
    return _c15_neutralised_passes(fa, v, case, recs, one_case, sh, seed)


@classifier("C15", "json-record-met-twice")
def _c15_recursion(fa, v, case, recs, one_case, sh, seed):
    """JSON grammar builder (Parser._process_record): a record met a second time
    (recursion, or a repeated use whose field type string contains its name) is
    handled by forcing 'null' -> RecursionError via array/map, IndexError beyond
    depth 2, wrong symbols on substring coincidences."""
    tr = schema_traits(case["schema"])
    if not ({"recursive", "reused_record"} & tr) or v[0] not in _C15_SIG_GRAMMAR:
        return False
    return _c15_neutralised_passes(fa, v, case, recs, one_case, sh, seed)


witness("C15", "json-fieldless-record", ({"type": "record", "name": "Empty", "fields": []}, [{}]))
witness("C15", "json-record-met-twice", (
    {"type": "record", "name": "Tree", "fields": [{"name": "v", "type": "int"}, {"name": "kids", "type": {"type": "array", "items": "Tree"}}]},
    [{"v": 1, "kids": [{"v": 2, "kids": []}]}]))
witness("C15", "json-default-with-nested-union", (
    {"type": "record", "name": "D", "fields": [{"name": "x", "type": "int"},
                                                {"name": "m", "type": {"type": "map", "values": ["int", "string"]}, "default": {"k": 1}}]},
    [{"x": 1, "m": {"a": 2}}]))


# ======================================================================
# C12 — piecewise-parsed schema whose top level is not a record
# ======================================================================
@classifier("C12", "piecewise-nonrecord-toplevel-has-no-name-table")
def _c12_nonrecord(fa, v, case, data, one_case, sh, seed):
    """parse_schema attaches the shared named-schema table only to records
    ('__named_schemas'); a piecewise-parsed array / map / union / reference has
    nowhere to carry it, so every later operation re-parses the references
    against an empty table -> UnknownType."""
    info = v[2]
    if info.get("form") != "piecewise" or not info.get("subset"):
        return False
    js = case["schema"]
    if isinstance(js, dict) and js.get("type") in ("record", "error"):
        return False
    # a top-level union all of whose in-place branches are records carries the table on those
    # branches (the writer inlines from them): that shape works and is not this mechanism
    if isinstance(js, list):
        split = set(info.get("subset") or [])

        def full(b):
            n = b.get("name", "")
            return n if "." in n or not b.get("namespace") else b["namespace"] + "." + n

        dicts = [b for b in js if isinstance(b, dict) and not ("name" in b and full(b) in split)]
        if dicts and all(b.get("type") in ("record", "error") for b in dicts) and info.get("op") in ("container", "container-fresh"):
            # the container writer does inline from record branches: a file written from such a
            # union is readable on its own on the unchanged tree, so a failure here is not the finding
            return False
    if fa is None:
        return True  # fresh-process re-read of a file that could not even be written
    # neutralising edit: the same split below a record top level
    from .props import c12
    from .ref import schema as RS

    wrapped = {"type": "record", "name": "VfTop", "fields": [{"name": "w", "type": js}]}
    try:
        node, _env = RS.build(wrapped)
    except Exception:
        return False
    case2 = {"schema": wrapped, "node": node, "data": [{"w": d} for d in data]}
    import random

    vs = c12.one_case(sh.__class__("C12", {}), fa, random.Random(1), case2, [], info["subset"])
    # JSON differences between the forms belong to another mechanism (json-record-met-twice)
    return not [x for x in vs if x[2].get("op") != "json"]


witness("C12", "piecewise-nonrecord-toplevel-has-no-name-table", (
    {"type": "array", "items": {"type": "record", "name": "Child", "namespace": "x", "fields": [{"name": "a", "type": "int"}]}},
    [[{"a": 1}]], ["x.Child"]))


# ======================================================================
# C20 — data generation on recursive schemas
# ======================================================================
@classifier("C20", "generate-unbounded-recursion")
def _c20_recursion(fa, v, case, recs, one_schema, sh, seed):
    """utils.gen_data recurses without a depth bound: every array/map gets 10
    items, so a type that refers to itself through an array or map never
    terminates (RecursionError); through ['null', T] unions termination is only
    probabilistic."""
    import random

    js = case["schema"]
    if "recursive" not in schema_traits(js):
        return False
    # signatures of unbounded generation: the generator blows the stack, or it
    # returns a value so large that a later step trips the call watchdog
    if not ("RecursionError" in v[1] or "HangError" in v[1]):
        return False
    js2 = derecurse(js)
    r = random.Random(seed)
    return one_schema(sh.__class__("C20", {}), fa, r, js2, set()) is None


witness("C20", "generate-unbounded-recursion",
        {"type": "record", "name": "Tree", "fields": [{"name": "v", "type": "int"}, {"name": "kids", "type": {"type": "array", "items": "Tree"}}]})


def strip_logical(js):
    """Remove logical-type annotations everywhere (the underlying types stay)."""
    if isinstance(js, list):
        return [strip_logical(b) for b in js]
    if isinstance(js, dict):
        out = {k: v for k, v in js.items() if k not in ("logicalType", "precision", "scale")}
        t = js.get("type")
        if t == "array":
            out["items"] = strip_logical(js["items"])
        elif t == "map":
            out["values"] = strip_logical(js["values"])
        elif t in ("record", "error"):
            out["fields"] = [dict(f, type=strip_logical(f["type"])) for f in js.get("fields", [])]
        return out
    return js


# what the generator of the unchanged library draws for a leaf (kind, logical type), as an
# interval, and the domain outside which the reader's conversion of a logical leaf fails
_I32 = (-(1 << 31), (1 << 31) - 1)
_I64 = (-(1 << 63), (1 << 63) - 1)
_TSM = (0, 253402300799999)
_GEN_RANGE = {("int", None): _I32, ("int", "date"): (-719162, 2932896), ("int", "time-millis"): (0, 86400000 - 1),
              ("long", None): _I64, ("long", "time-micros"): (0, 86400000000 - 1),
              ("long", "timestamp-millis"): _TSM, ("long", "local-timestamp-millis"): _TSM,
              ("long", "timestamp-micros"): (0, 253402300799999999), ("long", "local-timestamp-micros"): (0, 253402300799999999)}
_DOMAIN = {("int", "date"): (-719162, 2932896), ("int", "time-millis"): (0, 86400000 - 1), ("long", "time-micros"): (0, 86400000000 - 1),
           ("long", "timestamp-millis"): (-62135596800000, 253402300799999), ("long", "local-timestamp-millis"): (-62135596800000, 253402300799999),
           ("long", "timestamp-micros"): (-62135596800000000, 253402300799999999), ("long", "local-timestamp-micros"): (-62135596800000000, 253402300799999999)}


def _leaves(node, seen):
    from .ref.schema import deref
    from .ref import logical as L

    d = deref(node)
    if d.kind in ("record", "error"):
        if d.name in seen:
            return
        seen = seen | {d.name}
        for f in d.fields:
            yield from _leaves(f.type, seen)
    elif d.kind == "array":
        yield from _leaves(d.items, seen)
    elif d.kind == "map":
        yield from _leaves(d.values, seen)
    elif d.kind == "union":
        for b in d.branches:
            yield from _leaves(b, seen)
    elif d.kind in ("int", "long", "string"):
        yield (d.kind, d.logical if d.logical and L.known(d) else None)
    elif d.kind == "enum":
        yield ("string", None)  # a generated symbol is a plain str: it fits a uuid-annotated string leaf


def misrouting_explained(node, seen=frozenset()):
    """True if some union of the schema has a branch holding a logical leaf with a narrow
    domain next to ANOTHER branch holding a leaf for which the unchanged generator draws raw
    values of a fitting width outside that domain (the open finding's mechanism).  A long
    drawn over the whole 64-bit range does not fit an int leaf."""
    from .ref.schema import deref

    d = deref(node)
    if d.kind in ("record", "error"):
        if d.name in seen:
            return False
        seen = seen | {d.name}
        return any(misrouting_explained(f.type, seen) for f in d.fields)
    if d.kind == "array":
        return misrouting_explained(d.items, seen)
    if d.kind == "map":
        return misrouting_explained(d.values, seen)
    if d.kind != "union":
        return False
    per_branch = [set(_leaves(b, seen)) for b in d.branches]
    for i, li in enumerate(per_branch):
        for tgt in li:
            if tgt == ("string", "uuid"):
                if any(("string", None) in lj for j, lj in enumerate(per_branch) if j != i):
                    return True
                continue
            if tgt not in _DOMAIN:
                continue
            lo, hi = _DOMAIN[tgt]
            for j, lj in enumerate(per_branch):
                if j == i:
                    continue
                for src in lj:
                    if src not in _GEN_RANGE or src == tgt:
                        continue
                    if tgt[0] == "int" and src[0] == "long":
                        continue  # (practically) never fits an int leaf
                    slo, shi = _GEN_RANGE[src]
                    if slo < lo or shi > hi:
                        return True
    return any(misrouting_explained(b, seen) for b in d.branches)


@classifier("C20", "generated-raw-value-lands-in-narrower-logical-branch")
def _c20_logical_branch(fa, v, case, recs, one_schema, sh, seed):
    """gen_data emits raw integers / bytes for logical-typed leaves.  Inside a
    union the writer may route such a value (e.g. a record of raw longs) to
    another conforming branch (a map of timestamp-millis) whose logical type has
    a narrower domain, and the reader's conversion then overflows."""
    import random

    js = case["schema"]
    if v[0] not in ("value-not-readable", "values-not-readable"):
        return False
    if "logicalType" not in json.dumps(js):
        return False
    if not any(x in v[1] for x in ("OverflowError", "ValueError", "out of range")):
        return False
    # the finding is this mechanism only: a union in which the unchanged generator's raw values
    # for one branch fall outside the domain of a logical leaf of another branch
    try:
        from .ref import schema as RS
        if not misrouting_explained(RS.build(js)[0]):
            return False
    except Exception:
        return False
    return one_schema(sh.__class__("C20", {}), fa, random.Random(seed), strip_logical(js), set()) is None


# ======================================================================
# bytes / fixed defaults used verbatim (C01, C02, C08, C10)
# ======================================================================
def bytes_default_fields(node, seen=None, out=None):
    """(record full name, field name) of every field whose default holds a string meant for bytes/fixed."""
    from .ref.schema import deref
    from .ref import conform as RC

    seen = seen if seen is not None else set()
    out = out if out is not None else set()
    d = deref(node)
    if d.kind == "record":
        if d.name in seen:
            return out
        seen.add(d.name)
        for f in d.fields:
            if f.has_default and RC.default_datum(f.type, f.default) != f.default:
                out.add((d.name, f.name))
            bytes_default_fields(f.type, seen, out)
    elif d.kind == "array":
        bytes_default_fields(d.items, seen, out)
    elif d.kind == "map":
        bytes_default_fields(d.values, seen, out)
    elif d.kind == "union":
        for b in d.branches:
            bytes_default_fields(b, seen, out)
    return out


def strip_field_defaults(js, pairs):
    """The schema without the defaults of the given (record full name, field name) pairs."""
    def walk(n, ns):
        if isinstance(n, list):
            return [walk(b, ns) for b in n]
        if isinstance(n, dict):
            t = n.get("type")
            out = dict(n)
            if t == "array":
                out["items"] = walk(n["items"], ns)
            elif t == "map":
                out["values"] = walk(n["values"], ns)
            elif t in ("record", "error"):
                space, full = split_name(n, ns)
                fields = []
                for f in n.get("fields", []):
                    g = dict(f, type=walk(f["type"], space))
                    if (full, f["name"]) in pairs:
                        g.pop("default", None)
                    fields.append(g)
                out["fields"] = fields
            return out
        return n

    return walk(copy.deepcopy(js), "")


def neutralise_bytes_defaults(case):
    """Neutralising edit of 'bytes-default-used-verbatim': the data get every omitted
    defaulted field explicitly (default converted per the specification) and the
    schema loses the defaults that hold strings meant for bytes/fixed."""
    from .ref import schema as RS
    from .ref import conform as RC

    node = case["node"]
    pairs = bytes_default_fields(node)
    datum = RC.fill_defaults(node, case["datum"])
    js2 = strip_field_defaults(case["schema"], pairs)
    node2, env2 = RS.build(js2)
    return dict(case, schema=js2, node=node2, env=env2, datum=datum)



@classifier("C12", "json-record-met-twice")
def _c12_json_met_twice(fa, v, case, data, one_case, sh, seed):
    """The JSON grammar builder's 'record met twice' hack (see C15) compares a
    record's name with field types by substring/containment; in the piecewise form
    field types are reference *strings*, so 'R' in 'c.Rec' holds where the raw
    form has an inline dict: the JSON operations then differ between the forms."""
    info = v[2]
    if info.get("op") != "json" or fa is None:
        return False
    from .props import c12
    from .ref import schema as RS
    import random

    js = case["schema"]
    if "recursive" in schema_traits(js):
        js = derecurse(js)
        fresh = True
    else:
        fresh = False
    js2, names = rename_all(js, True)
    try:
        node, _env = RS.build(js2)
    except Exception:
        return False
    if fresh:
        from .gen.datum import DatumGen
        data2 = [DatumGen(random.Random(seed), size_budget=25, big=0.0, mappings=0.0).gen(node)]
    else:
        data2 = data
    subset = [names.get(x, x) for x in (info.get("subset") or [])]
    case2 = {"schema": js2, "node": node, "data": data2}
    vs = c12.one_case(sh.__class__("C12", {}), fa, random.Random(1), case2, [], subset if subset else None)
    return not [x for x in vs if x[2].get("op") == "json"]


witness("C12", "json-record-met-twice", (
    {"type": "record", "name": "Top", "namespace": "c", "fields": [
        {"name": "a", "type": {"type": "record", "name": "R", "fields": [
            {"name": "f", "type": {"type": "record", "name": "Rec", "fields": [{"name": "y", "type": "int"}]}}]}},
        {"name": "b", "type": "c.R"}]},
    [{"a": {"f": {"y": 1}}, "b": {"f": {"y": 2}}}], ["c.Rec"]))

witness("C20", "generated-raw-value-lands-in-narrower-logical-branch",
        [{"type": "map", "values": {"type": "long", "logicalType": "timestamp-millis"}},
         {"type": "record", "name": "Raw", "fields": [{"name": "a", "type": "long"}, {"name": "b", "type": "long"}]}])

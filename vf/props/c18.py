"""C18 — concurrent operations on distinct streams behave as if run
sequentially: deterministic line-level scheduler."""
import copy
import decimal
import datetime as dt
import io
import os
import random
import uuid

from ..harness import Shard, rng_for, h64, printable
from ..ref import conform as RC

PID = "C18"
LEVEL = "exploration"
RULE = (
    "operations (schemaless and container read/write, validate, parse_schema, canonical form, JSON "
    "write/read; with and without logical types; decimals of different precisions in the two "
    "threads; reads with a reader schema) run in worker threads on distinct streams, sharing "
    "parsed schema objects, under a deterministic scheduler: a sys.monitoring LINE callback on the "
    "fastavro code parks a thread at a statement start and releases the one the schedule names. "
    "Per ordered pair (A,B): ALL one-preemption schedules (A stopped before its p-th line event, "
    "for every p; B runs to completion; A finishes) - exhaustive within that bound; plus random "
    "schedules with 2-3 preemptions between 2 threads (thorough: also 3 threads); plus a free-running "
    "stress phase (2-8 real threads, switch interval 1 us, 3 s per shard quick / 60 s thorough). Oracle: every "
    "thread's observation (value / bytes / exception class) equals the sequential observation. "
    "distinct = hash(operation pair, schedule as thread/segment sequence); non-trivial = >=1 preemption."
)
ASSUMPTIONS = [
    "thread switches at statement starts of fastavro code; stdlib and C calls run atomically within a statement (A29)",
    "bounds: <=3 preemptions, <=3 threads, operations of <= ~2500 line events; 'every interleaving' is out of reach of runtime methods",
]
SHARDS = 16
TIME_LIMIT = {"quick": 45, "thorough": 700}
PAIRS = {"quick": 2, "thorough": 40}  # ordered pairs per shard (on top of the fixed decimal pairs)
REACH = {
    "quick": {"schedules_executed": 5000, "one_preemption_schedules": 4000, "multi_preemption_schedules": 300,
              "pairs_explored": 16, "decimal_pairs": 2, "stress_ops_compared": 3000, "fresh_schema_schedules": 300, "fresh_reader_schema_schedules": 200},
    "thorough": {"schedules_executed": 100000},
}


def plan(tier, seed):
    return [{"shard": i, "seed": seed, "tier": tier, "time_limit": TIME_LIMIT[tier]} for i in range(SHARDS)]


def coverage_extra(tier, counters):
    return {"exhaustive_within_bound": "all one-preemption schedules of every explored ordered pair",
            "exhaustive": False}


# --------------------------------------------------------------- operations
RAW_REC = {
    "type": "record", "name": "Ev", "namespace": "c18",
    "fields": [
        {"name": "id", "type": "long"},
        {"name": "tag", "type": {"type": "enum", "name": "Tag", "symbols": ["A", "B", "C"]}},
        {"name": "u", "type": ["null", "string", {"type": "record", "name": "In", "fields": [{"name": "x", "type": "int"}, {"name": "y", "type": ["null", "double"], "default": None}]}]},
        {"name": "arr", "type": {"type": "array", "items": "c18.In"}},
        {"name": "m", "type": {"type": "map", "values": "Tag"}},
        {"name": "fx", "type": {"type": "fixed", "name": "F4", "size": 4}},
        {"name": "opt", "type": "string", "default": "dflt"},
    ],
}
RAW_REC2 = {
    "type": "record", "name": "Ev", "namespace": "c18",
    "fields": [
        {"name": "opt", "type": "string", "default": "dflt"},
        {"name": "id", "type": "double"},
        {"name": "extra", "type": "int", "default": 7},
        {"name": "u", "type": ["null", "string", {"type": "record", "name": "In", "fields": [{"name": "x", "type": "long"}]}]},
        {"name": "tag", "type": {"type": "enum", "name": "Tag", "symbols": ["A", "B"], "default": "A"}},
    ],
}
RAW_LOG = {
    "type": "record", "name": "Lg", "fields": [
        {"name": "d", "type": {"type": "int", "logicalType": "date"}},
        {"name": "ts", "type": {"type": "long", "logicalType": "timestamp-millis"}},
        {"name": "tu", "type": {"type": "long", "logicalType": "time-micros"}},
        {"name": "id", "type": {"type": "string", "logicalType": "uuid"}},
        {"name": "fd", "type": {"type": "fixed", "name": "FD", "size": 8, "logicalType": "decimal", "precision": 12, "scale": 3}},
    ],
}


# every logical type the library knows, plus annotations it does not interpret (more distinct
# (type, logicalType) combinations than any small cache would hold)
RAW_ALL = {"type": "record", "name": "All", "fields": [
    {"name": "a", "type": {"type": "int", "logicalType": "date"}},
    {"name": "b", "type": {"type": "int", "logicalType": "time-millis"}},
    {"name": "c", "type": {"type": "long", "logicalType": "time-micros"}},
    {"name": "d", "type": {"type": "long", "logicalType": "timestamp-millis"}},
    {"name": "e", "type": {"type": "long", "logicalType": "timestamp-micros"}},
    {"name": "f", "type": {"type": "long", "logicalType": "local-timestamp-millis"}},
    {"name": "g", "type": {"type": "long", "logicalType": "local-timestamp-micros"}},
    {"name": "h", "type": {"type": "string", "logicalType": "uuid"}},
    {"name": "i", "type": {"type": "bytes", "logicalType": "decimal", "precision": 8, "scale": 2}},
    {"name": "j", "type": {"type": "fixed", "name": "FJ", "size": 6, "logicalType": "decimal", "precision": 10, "scale": 1}},
    {"name": "k", "type": {"type": "int", "logicalType": "x-one"}},
    {"name": "l", "type": {"type": "string", "logicalType": "x-two"}},
    {"name": "m", "type": {"type": "double", "logicalType": "x-three"}},
    {"name": "n", "type": {"type": "array", "items": {"type": "long", "logicalType": "timestamp-micros"}}},
]}
ALL1 = {"a": dt.date(1999, 12, 31), "b": dt.time(1, 2, 3, 4000), "c": dt.time(23, 59, 59, 999999),
        "d": dt.datetime(2001, 2, 3, 4, 5, 6, 7000, tzinfo=dt.timezone.utc), "e": dt.datetime(1960, 1, 1, 0, 0, 0, 1, tzinfo=dt.timezone.utc),
        "f": dt.datetime(2020, 5, 17, 12, 0, 0, 123000), "g": dt.datetime(1901, 1, 1, 1, 1, 1, 1),
        "h": uuid.UUID(int=0xFEDCBA9876543210FEDCBA9876543210), "i": decimal.Decimal("-12345.67"), "j": decimal.Decimal("98765432.1"),
        "k": 7, "l": "plain", "m": 2.5, "n": [dt.datetime(1970, 1, 1, tzinfo=dt.timezone.utc), dt.datetime(2038, 1, 19, 3, 14, 8, tzinfo=dt.timezone.utc)]}


def raw_dec(prec, scale, name):
    return {"type": "record", "name": name, "fields": [
        {"name": "d", "type": {"type": "bytes", "logicalType": "decimal", "precision": prec, "scale": scale}},
        {"name": "n", "type": "long"}]}


REC1 = {"id": 12345678901, "tag": "B", "u": {"x": 5, "y": 2.5}, "arr": [{"x": 1}, {"x": -2, "y": 0.5}], "m": {"k": "C", "": "A"}, "fx": b"\x00\x01\x02\x03", "opt": "o"}
REC2 = {"id": -1, "tag": "C", "u": "text é", "arr": [], "m": {}, "fx": b"abcd"}
OPT1 = {k: v for k, v in REC1.items() if k not in ("u", "opt")}  # nullable "u" and defaulted "opt" left out
OPT2 = {k: v for k, v in REC1.items() if k != "opt"}
TUP1 = dict(REC1, u=("c18.In", {"x": 5, "y": None}))
LOG1 = {"d": dt.date(2024, 2, 29), "ts": dt.datetime(1969, 12, 31, 23, 59, 59, 999000, tzinfo=dt.timezone.utc), "tu": dt.time(23, 59, 59, 999999),
        "id": uuid.UUID(int=0x1234567890ABCDEF1234567890ABCDEF), "fd": decimal.Decimal("-123456789.125")}


class Ops:
    """Factories of zero-argument callables; each call works on fresh streams."""

    def __init__(self, fa):
        from fastavro.schema import to_parsing_canonical_form

        self.fa = fa
        self.pcf = to_parsing_canonical_form
        self.REC = fa.parse_schema(copy.deepcopy(RAW_REC))
        self.REC2 = fa.parse_schema(copy.deepcopy(RAW_REC2))
        self.LOG = fa.parse_schema(copy.deepcopy(RAW_LOG))
        self.ALL = fa.parse_schema(copy.deepcopy(RAW_ALL))
        self.D30 = fa.parse_schema(raw_dec(30, 2, "D30"))
        self.D2 = fa.parse_schema(raw_dec(2, 1, "D2"))
        self.D9 = fa.parse_schema(raw_dec(9, 0, "D9"))
        self.dec30 = {"d": decimal.Decimal("1234567890123456789012345678.91"), "n": 1}
        self.dec2 = {"d": decimal.Decimal("-9.9"), "n": 2}
        self.dec9 = {"d": decimal.Decimal("123456789"), "n": 3}
        self.b_rec = [self._sw(self.REC, REC1), self._sw(self.REC, REC2)]
        self.b_log = self._sw(self.LOG, LOG1)
        self.b_all = self._sw(self.ALL, ALL1)
        self.b_d30 = self._sw(self.D30, self.dec30)
        self.b_d2 = self._sw(self.D2, self.dec2)
        self.b_d9 = self._sw(self.D9, self.dec9)
        f = io.BytesIO()
        fa.writer(f, self.REC, [REC1, REC2, REC1], codec="deflate", sync_marker=b"\x01" * 16, sync_interval=60)
        self.file_rec = f.getvalue()
        f = io.BytesIO()
        fa.writer(f, self.D30, [self.dec30] * 3, sync_marker=b"\x02" * 16)
        self.file_d30 = f.getvalue()
        s = io.StringIO()
        fa.json_writer(s, self.REC, [REC1, REC2])
        self.json_rec = s.getvalue()
        # many distinct record schemas (more than any per-schema table is likely to hold)
        self.MANY = [fa.parse_schema({"type": "record", "name": "M%d" % i, "namespace": "c18.many", "fields": [
            {"name": "a", "type": "int"}, {"name": "b", "type": "string", "default": "x"}]}) for i in range(80)]

    def _swo(self, schema, d, **kw):
        b = io.BytesIO()
        self.fa.schemaless_writer(b, schema, d, **kw)
        return b.getvalue()

    def _sw(self, schema, d):
        b = io.BytesIO()
        self.fa.schemaless_writer(b, schema, d)
        return b.getvalue()

    def catalog(self):
        fa = self.fa

        def strip(x):
            if isinstance(x, dict):
                return {k: strip(v) for k, v in x.items() if k != "__named_schemas"}
            if isinstance(x, list):
                return [strip(v) for v in x]
            return x

        def cw(schema, recs, codec):
            b = io.BytesIO()
            fa.writer(b, schema, recs, codec=codec, sync_marker=b"\x03" * 16, sync_interval=50)
            return b.getvalue()

        def jw(schema, recs):
            s = io.StringIO()
            fa.json_writer(s, schema, recs)
            return s.getvalue()

        def wclass(recs, codec, marker):
            # the Writer class used directly, with flushes in the middle of the stream
            from fastavro.write import Writer
            b = io.BytesIO()
            w = Writer(b, self.REC, codec=codec, sync_marker=marker, sync_interval=10**6)
            for i, r in enumerate(recs):
                w.write(r)
                if i % 2 == 0:
                    w.flush()
            w.flush()
            w.flush()
            return b.getvalue()

        def bcopy():
            from fastavro.write import Writer
            b = io.BytesIO()
            w = Writer(b, self.REC, codec="null", sync_marker=b"\x06" * 16)
            for blk in fa.block_reader(io.BytesIO(self.file_rec)):
                w.write_block(blk)
            w.flush()
            return b.getvalue()

        from fastavro.schema import expand_schema

        def jdump(x):
            import json as _json
            return _json.dumps(strip(x), sort_keys=True, default=repr)

        return {
            "expand_parsed": lambda: jdump(expand_schema(self.REC)),
            "expand_raw": lambda: jdump(expand_schema(copy.deepcopy(RAW_REC))),
            "swrite_all_logical": lambda: self._sw(self.ALL, ALL1),
            "sread_all_logical": lambda: fa.schemaless_reader(io.BytesIO(self.b_all), self.ALL),
            "validate_all_logical": lambda: fa.validate(ALL1, self.ALL),
            "wclass_a": lambda: wclass([REC1, REC2, REC1, REC2], "null", b"\x04" * 16),
            "wclass_b": lambda: wclass([REC2, REC2, REC1], "deflate", b"\x05" * 16),
            "block_copy": bcopy,
            "block_read": lambda: [(blk.num_records, blk.codec, list(blk)) for blk in fa.block_reader(io.BytesIO(self.file_rec))],
            "sread_dec30": lambda: fa.schemaless_reader(io.BytesIO(self.b_d30), self.D30),
            "sread_dec2": lambda: fa.schemaless_reader(io.BytesIO(self.b_d2), self.D2),
            "sread_dec9": lambda: fa.schemaless_reader(io.BytesIO(self.b_d9), self.D9),
            "cread_dec30": lambda: list(fa.reader(io.BytesIO(self.file_d30))),
            "swrite_dec30": lambda: self._sw(self.D30, self.dec30),
            "swrite_rec": lambda: self._sw(self.REC, REC1),
            "swrite_rec2": lambda: self._sw(self.REC, REC2),
            "sread_rec": lambda: fa.schemaless_reader(io.BytesIO(self.b_rec[0]), self.REC),
            "sread_rec_resolve": lambda: fa.schemaless_reader(io.BytesIO(self.b_rec[1]), self.REC, self.REC2),
            "sread_rec_named": lambda: fa.schemaless_reader(io.BytesIO(self.b_rec[0]), self.REC, return_record_name=True),
            "cwrite_rec": lambda: cw(self.REC, [REC1, REC2], "null"),
            "cwrite_rec_deflate": lambda: cw(self.REC, [REC2, REC1, REC2], "deflate"),
            "cread_rec": lambda: list(fa.reader(io.BytesIO(self.file_rec))),
            "cread_rec_named": lambda: list(fa.reader(io.BytesIO(self.file_rec), return_record_name=True)),
            "cread_rec_resolve": lambda: list(fa.reader(io.BytesIO(self.file_rec), reader_schema=copy.deepcopy(RAW_REC2))),
            "validate_rec": lambda: fa.validate(REC1, self.REC),
            "validate_bad": lambda: fa.validate(dict(REC2, tag="ZZ"), self.REC, raise_errors=False),
            # the same datum judged under different options (omitted nullable field / missing defaulted
            # field; a 2-tuple that is a branch hint or plain data): each call keeps its own options
            "validate_opt_loose": lambda: fa.validate(OPT1, self.REC, raise_errors=False),
            "validate_opt_strict": lambda: fa.validate(OPT1, self.REC, raise_errors=False, strict=True),
            "validate_opt_allow_default": lambda: fa.validate(OPT2, self.REC, raise_errors=False, strict_allow_default=True),
            "validate_tuple_hint": lambda: fa.validate(TUP1, self.REC, raise_errors=False),
            "validate_tuple_plain": lambda: fa.validate(TUP1, self.REC, raise_errors=False, disable_tuple_notation=True),
            "swrite_strict_many": lambda: [self._swo(S, {"a": i, "b": "y"}, strict=True) for i, S in enumerate(self.MANY)],
            "swrite_allow_default_many": lambda: [self._swo(S, {"a": i}, strict_allow_default=True) for i, S in reversed(list(enumerate(self.MANY)))],
            "parse_raw": lambda: strip(fa.parse_schema(copy.deepcopy(RAW_REC))),
            "parse_raw2": lambda: strip(fa.parse_schema(copy.deepcopy(RAW_REC2))),
            "pcf_rec": lambda: self.pcf(self.REC),
            "jwrite_rec": lambda: jw(self.REC, [REC1, REC2]),
            "jwrite_rec_b": lambda: jw(self.REC, [dict(REC2, id=777, u={"x": 9, "y": None}, arr=[{"x": 42}]), dict(REC1, id=888)]),
            "jread_rec": lambda: list(fa.json_reader(io.StringIO(self.json_rec), self.REC)),
            "swrite_log": lambda: self._sw(self.LOG, LOG1),
            "sread_log": lambda: fa.schemaless_reader(io.BytesIO(self.b_log), self.LOG),
            "swrite_raw_schema": lambda: self._sw(copy.deepcopy(RAW_REC), REC1),
        }


def same(a, b):
    if a[0] != b[0]:
        return False
    if a[0] == "exc":
        return a[1] == b[1]
    return RC.same(a[1], b[1]) and repr(a[1]) == repr(b[1])


def run_shard(spec):
    import fastavro as fa
    from ..mon import sched

    sh = Shard(PID, spec)
    rng = rng_for("C18", spec["seed"], spec["shard"])
    sched.install(os.path.dirname(os.path.abspath(fa.__file__)))
    ops = Ops(fa)
    cat = ops.catalog()
    names = sorted(cat)
    # sequential observations and event counts (one thread, same monitor)
    seq, nev = {}, {}
    for n in names:
        cnt, res, lines = sched.count_events(cat[n])
        cnt2, res2, _ = sched.count_events(cat[n])
        seq[n] = res
        nev[n] = cnt
        if not same(res, res2):
            # every operation works on fresh streams with fixed markers: run twice in a row, alone,
            # it must give the same answer; if not there is no sequential behaviour to compare with
            sh.violation("concurrent-result-differs", "operation %s run twice in a row in one thread gives %s and then %s"
                         % (n, printable(res, 150), printable(res2, 150)), {"pair": [n, n], "sequential": True})
            return sh.result()
        if cnt != cnt2:
            sh.count("line_event_count_varies")
        sh.count("line_events_profiled", cnt)
    tier = spec["tier"]
    if "replay" in spec:
        import base64, pickle

        info = pickle.loads(base64.b64decode(spec["replay"]["pickle"]))
        sh.case(None)
        if info.get("sequential") or info.get("stress"):
            return sh.result()  # the profiling pass above has already re-judged it / not schedulable
        a, b = info["pair"]
        run = sched.Run([cat[x] for x in info["threads"]], sched.preempt_points({tuple(k): v for k, v in info["points"]}))
        res = run.execute(first=info["first"])
        sh.case(None)
        for x, r in zip(info["threads"], res):
            if not same(r, seq[x]):
                sh.violation("concurrent-result-differs", "replayed: %s gives %s, sequentially %s" % (x, printable(r, 200), printable(seq[x], 200)), info)
        return sh.result()
    # ---- free-running stress: real preemption at bytecode granularity (switch interval 1 us),
    # no scheduler; complements the statement-level schedules below
    import sys
    import threading
    import time as _time

    budget = 3.0 if tier == "quick" else 60.0
    old_iv = sys.getswitchinterval()
    sys.monitoring.set_events(sched.TOOL, 0)
    sys.setswitchinterval(1e-6)
    try:
        t_end = _time.time() + budget
        rounds = 0
        while _time.time() < t_end and not sh.violations:
            picks = [rng.choice(names) for _ in range(rng.choice([2, 4, 8]))]
            if rounds < 3:
                # the first rounds: strict-mode writes over many distinct record schemas in every thread
                picks = [("swrite_strict_many", "swrite_allow_default_many")[k % 2] for k in range(4)]
            outs = [None] * len(picks)
            gate = threading.Barrier(len(picks))

            def body(i, name):
                got = []
                gate.wait()
                for _k in range(6):
                    try:
                        got.append(("ok", cat[name]()))
                    except Exception as e:  # noqa: observation of a failing operation is its exception class
                        got.append(("exc", type(e).__name__))
                outs[i] = got

            ths = [threading.Thread(target=body, args=(i, n), daemon=True) for i, n in enumerate(picks)]
            for t in ths:
                t.start()
            for t in ths:
                t.join(60)
            if any(t.is_alive() for t in ths):
                sh.count("stress_rounds_hung_inconclusive")
                break
            rounds += 1
            for n, got in zip(picks, outs):
                for r in got or []:
                    sh.count("stress_ops_compared")
                    if not same(r, seq[n]):
                        sh.violation("concurrent-result-differs",
                                     "free-running threads %s: %s returned %s, run alone it returns %s" % (picks, n, printable(r, 200), printable(seq[n], 200)),
                                     {"stress": picks})
                        break
        sh.count("stress_rounds", rounds)
    finally:
        sys.setswitchinterval(old_iv)
        sys.monitoring.set_events(sched.TOOL, sys.monitoring.events.LINE)
    # ---- first use of a freshly parsed shared schema by two threads at once: whatever the library
    # builds lazily per schema object (lookup tables, caches) is built under contention
    def fresh_schema():
        syms = ["S%d" % i for i in range(120)]
        return fa.parse_schema({"type": "record", "name": "Fresh", "namespace": "c18", "fields": [
            {"name": "e", "type": {"type": "enum", "name": "Big", "symbols": syms}},
            {"name": "u", "type": ["null", "Big", "string"]},
            {"name": "m", "type": {"type": "map", "values": "Big"}},
            {"name": "d", "type": {"type": "bytes", "logicalType": "decimal", "precision": 9, "scale": 2}},
            {"name": "f", "type": {"type": "fixed", "name": "F8", "size": 8}, "default": "\u0000\u0001\u0002\u0003\u0004\u0005\u0006\u00ff"},
            # unions with several named branches (what the reader's name-reporting options look at)
            {"name": "u2", "type": ["null", "Big", "F8", {"type": "record", "name": "R1", "fields": [{"name": "x", "type": "int"}]}, "string"], "default": None},
            {"name": "u3", "type": {"type": "array", "items": ["R1", "Big"]}, "default": []}]})

    fresh_datum = {"e": "S119", "u": "S118", "m": {"k": "S117", "j": "S3"}, "d": decimal.Decimal("1234567.89"),
                   "u2": "S4", "u3": [{"x": 1}, "S9"]}

    def f_swrite(S):
        b = io.BytesIO()
        fa.schemaless_writer(b, S, fresh_datum)
        return b.getvalue()

    fresh_bytes = f_swrite(fresh_schema())
    fresh_ops = {
        "swrite": f_swrite,
        "validate": lambda S: fa.validate(fresh_datum, S),
        "sread": lambda S: fa.schemaless_reader(io.BytesIO(fresh_bytes), S),
        "jwrite": lambda S: (lambda o: (fa.json_writer(o, S, [fresh_datum, fresh_datum]), o.getvalue())[1])(io.StringIO()),
        "cwrite": lambda S: (lambda o: (fa.writer(o, S, [fresh_datum, fresh_datum], sync_marker=b"\x07" * 16), o.getvalue())[1])(io.BytesIO()),
    }
    for _nm, _kw in (("sread_named_override", {"return_named_type": True, "return_named_type_override": True}),
                     ("sread_record_override", {"return_record_name": True, "return_record_name_override": True}),
                     ("sread_named", {"return_named_type": True})):
        fresh_ops[_nm] = (lambda kw: lambda S: fa.schemaless_reader(io.BytesIO(fresh_bytes), S, **kw))(_kw)
    fresh_json = fresh_ops["jwrite"](fresh_schema())
    fresh_ops["jread"] = lambda S: list(fa.json_reader(io.StringIO(fresh_json), S))
    # the fresh parsed schema used as a *reader* schema by both threads (data written by an older version)
    OLD = {"type": "record", "name": "Fresh", "namespace": "c18", "fields": [
        {"name": "e", "type": {"type": "enum", "name": "Big", "symbols": ["S%d" % i for i in range(120)]}},
        {"name": "u", "type": ["null", "Big", "string"]},
        {"name": "gone", "type": "long"}]}
    old_bytes = (lambda b: (fa.schemaless_writer(b, OLD, {"e": "S5", "u": "S7", "gone": 3}), b.getvalue())[1])(io.BytesIO())
    old_file = (lambda b: (fa.writer(b, OLD, [{"e": "S5", "u": None, "gone": i} for i in range(3)], sync_marker=b"\x08" * 16), b.getvalue())[1])(io.BytesIO())

    def fresh_reader_schema():
        js = {"type": "record", "name": "Fresh", "namespace": "c18", "fields": [
            {"name": "u", "type": ["null", {"type": "enum", "name": "Big", "symbols": ["S%d" % i for i in range(120)]}, "string"]},
            {"name": "e", "type": "Big"},
            {"name": "m", "type": {"type": "map", "values": "Big"}, "default": {}},
            {"name": "extra1", "type": "int", "default": 1}, {"name": "extra2", "type": "string", "default": "x"},
            {"name": "extra3", "type": ["null", "long"], "default": None}, {"name": "old_e", "type": "string", "default": "-", "aliases": ["zz"]}]}
        return fa.parse_schema(js)

    OLDP = fa.parse_schema(copy.deepcopy(OLD))  # the writer's schema is not what is under test: parsed once
    fresh_ops["resolve_sread"] = lambda S: fa.schemaless_reader(io.BytesIO(old_bytes), OLDP, S)
    fresh_ops["resolve_cread"] = lambda S: list(fa.reader(io.BytesIO(old_file), reader_schema=S))
    reader_side = {"resolve_sread", "resolve_cread"}
    fseq, fnev = {}, {}
    for n, fn in fresh_ops.items():
        S1 = fresh_reader_schema() if n in reader_side else fresh_schema()
        cnt, res, _l = sched.count_events(lambda: fn(S1))
        fseq[n], fnev[n] = res, cnt
    fnames = sorted(fresh_ops)
    # the two reader-side operations are short: every single-preemption schedule of one of them, in four shards
    # ... and so are the reads with the name-reporting options (shards 4-7)
    # ... and the first JSON uses of a fresh schema, streams of two records (shards 8-11)
    if spec["shard"] < 12:
        a, b = [("resolve_sread", "resolve_sread"), ("resolve_sread", "resolve_cread"), ("resolve_cread", "resolve_sread"), ("resolve_cread", "resolve_cread"),
                ("sread_named_override", "sread_named_override"), ("sread_named_override", "sread_record_override"),
                ("sread_record_override", "sread_named_override"), ("sread_record_override", "sread_record_override"),
                ("jwrite", "jwrite"), ("jwrite", "jread"), ("jread", "jwrite"), ("jread", "jread")][spec["shard"]]
        import time as _time
        # in the quick tier the enumeration gets 40 % of the shard's
        # time, starting at a point that depends on the seed (the thorough tier covers every point)
        t_stop = _time.time() + (0.35 if tier == "quick" else 10.0) * spec["time_limit"]
        first_pnt = rng.randrange(fnev[a]) if a[0] == "j" else 0
        for k0 in range(fnev[a]):
            pnt = (first_pnt + k0) % fnev[a] + 1
            if sh.out_of_time() or sh.violations or _time.time() > t_stop:
                break
            S2 = fresh_reader_schema() if a in reader_side else fresh_schema()
            run = sched.Run([lambda: fresh_ops[a](S2), lambda: fresh_ops[b](S2)], sched.preempt_points({(0, pnt): 1}))
            try:
                res = run.execute(first=0)
            except sched.Deadlock:
                sh.count("deadlocked_runs_inconclusive")
                continue
            sh.count("fresh_schema_schedules")
            sh.count("fresh_reader_schema_schedules" if a in reader_side else "fresh_schema_json_schedules" if a[0] == "j" else "fresh_schema_option_read_schedules")
            sh.count("schedules_executed")
            sh.case(h64("fresh-reader", a, b, pnt), True)
            for x, r in zip((a, b), res):
                if not same(r, fseq[x]):
                    sh.violation("concurrent-result-differs",
                                 "first use of one freshly parsed reader schema by two threads (%s preempted at event %d by %s): %s returned %s, alone it returns %s"
                                 % (a, pnt, b, x, printable(r, 160), printable(fseq[x], 160)), {"stress": ["fresh-reader", a, b, pnt]})
                    break
    fresh_budget = 60 if tier == "quick" else 3000
    for _k in range(fresh_budget):
        if sh.out_of_time() or sh.violations:
            break
        a = rng.choice(fnames)
        b = rng.choice([x for x in fnames if (x in reader_side) == (a in reader_side)])
        S2 = fresh_reader_schema() if a in reader_side else fresh_schema()
        # the event count of a first use under a seeded change may be far larger than profiled: sample widely
        pnt = rng.randint(1, max(2, fnev[a])) if rng.random() < 0.5 else rng.randint(1, 40 * max(2, fnev[a]))
        run = sched.Run([lambda: fresh_ops[a](S2), lambda: fresh_ops[b](S2)], sched.preempt_points({(0, pnt): 1}))
        try:
            res = run.execute(first=0)
        except sched.Deadlock:
            sh.count("deadlocked_runs_inconclusive")
            continue
        sh.count("fresh_schema_schedules")
        sh.count("schedules_executed")
        sh.case(h64("fresh", a, b, run.signature()), run.switches >= 1)
        for x, r in zip((a, b), res):
            if not same(r, fseq[x]):
                sh.violation("concurrent-result-differs",
                             "first use of one freshly parsed schema by two threads (%s preempted at event %d by %s): %s returned %s, alone it returns %s"
                             % (a, pnt, b, x, printable(r, 160), printable(fseq[x], 160)), {"stress": ["fresh", a, b, pnt]})
                break
    fixed_pairs = [("sread_dec30", "sread_dec2"), ("sread_dec2", "sread_dec30"), ("cread_dec30", "sread_dec9"), ("sread_dec9", "sread_dec30"),
                   ("jwrite_rec", "jwrite_rec_b"), ("cread_rec", "cread_rec_named"), ("cread_rec_named", "cread_rec"),
                   ("sread_rec", "sread_rec_named"), ("jwrite_rec_b", "jwrite_rec"), ("cwrite_rec", "cwrite_rec_deflate"),
                   ("jread_rec", "jwrite_rec_b"), ("parse_raw", "parse_raw2"), ("swrite_rec", "swrite_rec2"),
                   ("cread_rec_resolve", "cread_rec"), ("swrite_log", "sread_log"), ("validate_rec", "validate_bad"),
                   ("wclass_a", "wclass_b"), ("wclass_b", "wclass_a"), ("block_copy", "wclass_a"), ("block_read", "block_copy"),
                   ("expand_parsed", "swrite_rec"), ("swrite_rec", "expand_parsed"), ("expand_parsed", "validate_rec"), ("expand_parsed", "cread_rec"),
                   ("swrite_all_logical", "sread_all_logical"), ("sread_all_logical", "swrite_all_logical"), ("validate_all_logical", "swrite_all_logical"),
                   ("swrite_all_logical", "swrite_log"), ("expand_parsed", "expand_parsed"), ("sread_all_logical", "sread_log"),
                   ("validate_opt_loose", "validate_opt_strict"), ("validate_opt_strict", "validate_opt_loose"),
                   ("validate_tuple_hint", "validate_tuple_plain"), ("validate_tuple_plain", "validate_tuple_hint"),
                   ("validate_opt_allow_default", "validate_opt_strict"), ("validate_opt_strict", "validate_tuple_plain"),
                   ("swrite_strict_many", "swrite_allow_default_many")]
    all_pairs = [(a, b) for a in names for b in names]
    rng.shuffle(all_pairs)
    mine = [p for i, p in enumerate(fixed_pairs) if i % SHARDS == spec["shard"]] + all_pairs[: PAIRS[tier]]

    def check(threads, points, first, kind):
        run = sched.Run([cat[x] for x in threads], sched.preempt_points(points))
        try:
            res = run.execute(first=first)
        except sched.Deadlock as e:
            sh.count("deadlocked_runs_inconclusive")
            return True
        sh.count("schedules_executed")
        sh.count(kind)
        sh.case(h64(tuple(threads), run.signature()), run.switches >= 1)
        for x, r in zip(threads, res):
            if not same(r, seq[x]):
                info = {"pair": list(threads[:2]), "threads": list(threads), "points": [[list(k), v] for k, v in points.items()],
                        "first": first, "schedule": run.trace[:40]}
                sh.violation("concurrent-result-differs",
                             "threads %s under schedule %s: %s returned %s, run alone it returns %s"
                             % (list(threads), run.trace[:12], x, printable(r, 200), printable(seq[x], 200)), info)
                return False
        return True

    for a, b in mine:
        if sh.out_of_time():
            break
        sh.count("pairs_explored")
        if "dec" in a and "dec" in b:
            sh.count("decimal_pairs")
        ok = True
        # (1) every one-preemption schedule: A stopped at its p-th line event, B runs, A finishes
        for p in range(1, nev[a] + 1):
            if not check((a, b), {(0, p): 1}, 0, "one_preemption_schedules"):
                ok = False
                break
            if sh.out_of_time():
                break
        if not ok:
            continue
        # (3) random schedules with 2-3 preemptions
        for _ in range(12 if tier == "quick" else 60):
            pts = {}
            k = rng.choice([2, 3])
            for _i in range(k):
                t = rng.randrange(2)
                pts[(t, rng.randint(1, max(1, nev[(a, b)[t]])))] = 1 - t
            if not check((a, b), pts, rng.randrange(2), "multi_preemption_schedules"):
                break
        if tier == "thorough":
            c = rng.choice(names)
            for _ in range(40):
                pts = {}
                thr = (a, b, c)
                for _i in range(3):
                    t = rng.randrange(3)
                    pts[(t, rng.randint(1, max(1, nev[thr[t]])))] = rng.choice([x for x in range(3) if x != t])
                if not check(thr, pts, rng.randrange(3), "three_thread_schedules"):
                    break
        if len(sh.samples) < 3:
            sh.sample({"pair": [a, b], "line_events": [nev[a], nev[b]], "one_preemption_schedules": nev[a]})
    return sh.result()

"""C20 — generate_one / generate_many produce exactly n conforming values."""
import copy
import io
import random

from ..harness import Shard, rng_for, h64, schema_shape, printable, guard, exc_name
from ..gen.schema import gen_schema
from ..ref import schema as RS, conform as RC
from .. import known

PID = "C20"
LEVEL = "exploration"
RULE = (
    "generated schemas (logical types in 40%, by-name references, unions whose branches are "
    "references, recursion through ['null', T], through arrays and maps, error-kind records via "
    "targeted cases, raw and pre-parsed) x counts n in {0,1,2,7,50} x three states of the global "
    "random source (random.seed(k)) plus one pass in which the library's draws land on the ends of "
    "their ranges (randint -> a, b, a+1, b-1; random() -> 0.0, 1-2^-53, 2^-1074; all reachable "
    "states), plus a second call after the caller's raw schema dict was edited in place. Oracle: generate_many yields exactly n values, generate_one "
    "one; each value conforms to the schema under the independent conformance predicate (logical "
    "types through the reference conversions) and validate() accepts it; schemaless_writer and "
    "writer() accept it and the readers return. distinct = hash(schema shape, seed, n); "
    "non-trivial = schema has a complex or logical type."
)
ASSUMPTIONS = [
    "'can be read back' = the reader returns without exception; equality is not demanded (A31)",
    "a generator that does not come back within the 30 s call watchdog counts as raising",
]
N = {"quick": 6400, "thorough": 192000}
TIME_LIMIT = {"quick": 40, "thorough": 560}
SHARDS = 16
REACH = {
    "quick": {"schemas": 2000, "values_checked": 20000, "count_checks": 8000, "logical_schemas": 300,
              "reference_schemas": 500, "parsed_schema_inputs": 800,
              "extreme_values_checked": 5000, "extreme_draws": 20000, "edited_in_place_checked": 500, "interleaved_generators": 500},
    "thorough": {"schemas": 60000},
}


def plan(tier, seed):
    n = N[tier]
    return [{"shard": i, "n": n // SHARDS, "seed": seed, "tier": tier, "time_limit": TIME_LIMIT[tier], "witness": i == 0}
            for i in range(SHARDS)]


class ExtremeRandom:
    """Stand-in for the `random` module inside fastavro.utils: every answer is one the real
    generator can give in some state, but the ends of the requested ranges are frequent."""

    def __init__(self, r):
        self.r = r
        self.extreme = 0

    def randint(self, a, b):
        x = self.r.random()
        if x < 0.5:
            self.extreme += 1
            return (a, b, min(a + 1, b), max(b - 1, a))[int(x * 8)]
        return self.r.randint(a, b)

    def random(self):
        x = self.r.random()
        if x < 0.3:
            self.extreme += 1
            return (0.0, 1.0 - 2.0 ** -53, 2.0 ** -1074)[int(x * 10)]
        return self.r.random()

    def __getattr__(self, name):
        return getattr(self.r, name)


def one_schema(sh, fa, rng, js, feats):
    """Returns None or a violation triple."""
    from fastavro.utils import generate_one, generate_many

    node, env = RS.build(js)
    info = {"schema": js}
    parsed_input = rng.random() < 0.4
    if parsed_input:
        st, arg = guard(fa.parse_schema, copy.deepcopy(js))
        if st == "exc":
            return ("parse-rejected-valid-schema", exc_name(arg), info)
        sh.count("parsed_schema_inputs")
    else:
        arg = copy.deepcopy(js)
    info["parsed_input"] = parsed_input
    for k in (rng.randrange(1 << 30), 0, 12345):
        random.seed(k)
        n = rng.choice([0, 1, 2, 7, 50]) if k else 7
        st, vals = guard(lambda: list(generate_many(arg, n)))
        if st == "exc":
            return ("generate-raised", "generate_many(schema, %d) under random.seed(%d) raised %s" % (n, k, exc_name(vals)), dict(info, seed=k, n=n))
        sh.count("count_checks")
        if len(vals) != n:
            return ("wrong-count", "generate_many(schema, %d) yielded %d values" % (n, len(vals)), dict(info, seed=k, n=n))
        random.seed(k + 1)
        st, one = guard(generate_one, arg)
        if st == "exc":
            return ("generate-raised", "generate_one raised %s under random.seed(%d)" % (exc_name(one), k + 1), dict(info, seed=k + 1, n=1))
        sh.case(h64(schema_shape(js), k, n), not isinstance(js, str))
        for v in vals[:6] + [one]:
            try:
                fits = RC.conforms(node, v) or RC.conforms(node, v, loose=True)
            except RecursionError:
                return ("generate-raised", "the generated value nests deeper than the interpreter's recursion limit (RecursionError while walking it)", dict(info, seed=k, n=n))
            if not fits:
                return ("value-does-not-conform", "generated %s does not conform to the schema" % printable(v, 250), dict(info, seed=k, n=n, value=v))
            st, ok = guard(fa.validate, v, arg, raise_errors=False)
            if st == "exc" or ok is not True:
                return ("value-not-validated", "validate(generated value) -> %s" % (exc_name(ok) if st == "exc" else ok), dict(info, seed=k, n=n, value=v))
            out = io.BytesIO()
            st, err = guard(fa.schemaless_writer, out, arg, v)
            if st == "exc":
                return ("value-not-writable", "schemaless_writer rejected a generated value: %s" % exc_name(err), dict(info, seed=k, n=n, value=v))
            st, back = guard(fa.schemaless_reader, io.BytesIO(out.getvalue()), arg)
            if st == "exc":
                return ("value-not-readable", "schemaless_reader raised %s on a written generated value" % exc_name(back), dict(info, seed=k, n=n, value=v))
            sh.count("values_checked")
        if vals:
            fo = io.BytesIO()
            st, err = guard(fa.writer, fo, arg, vals)
            if st == "exc":
                return ("values-not-writable", "writer() rejected generated values: %s" % exc_name(err), dict(info, seed=k, n=n))
            st, back = guard(lambda: list(fa.reader(io.BytesIO(fo.getvalue()))))
            if st == "exc" or len(back) != n:
                return ("values-not-readable", "reader: %s" % (exc_name(back) if st == "exc" else len(back)), dict(info, seed=k, n=n))
    # ---- states of the random source in which draws land on the ends of their ranges
    import fastavro.utils as U

    ext = ExtremeRandom(random.Random(rng.getrandbits(40)))
    real = U.random
    U.random = ext
    try:
        st, vals = guard(lambda: list(generate_many(arg, 5)))
    finally:
        U.random = real
    if st == "exc":
        return ("generate-raised", "generate_many(schema, 5) raised %s when draws hit the ends of their ranges" % exc_name(vals), dict(info, extreme=True))
    if len(vals) != 5:
        return ("wrong-count", "generate_many(schema, 5) yielded %d values" % len(vals), dict(info, extreme=True))
    sh.count("extreme_draws", ext.extreme)
    for v in vals:
        try:
            fits = RC.conforms(node, v) or RC.conforms(node, v, loose=True)
        except RecursionError:
            return ("generate-raised", "the generated value nests deeper than the interpreter's recursion limit (RecursionError while walking it)", dict(info, extreme=True))
        if not fits:
            return ("value-does-not-conform", "generated %s does not conform to the schema (draws at the ends of their ranges)" % printable(v, 250), dict(info, extreme=True, value=v))
        st, ok = guard(fa.validate, v, arg, raise_errors=False)
        if st == "exc" or ok is not True:
            return ("value-not-validated", "validate(generated value) -> %s (draws at the ends of their ranges)" % (exc_name(ok) if st == "exc" else ok), dict(info, extreme=True, value=v))
        out = io.BytesIO()
        st, err = guard(fa.schemaless_writer, out, arg, v)
        if st == "exc":
            return ("value-not-writable", "schemaless_writer rejected a generated value (draws at the ends of their ranges): %s" % exc_name(err), dict(info, extreme=True, value=v))
        st, back = guard(fa.schemaless_reader, io.BytesIO(out.getvalue()), arg)
        if st == "exc":
            return ("value-not-readable", "schemaless_reader raised %s on a written generated value %s (draws at the ends of their ranges)" % (exc_name(back), printable(v, 120)), dict(info, extreme=True, value=v))
        sh.count("extreme_values_checked")
    # ---- two generators alive at once over schemas that give the same names to different types:
    # each keeps following its own schema
    if isinstance(js, (dict, list)) and "recursive" not in feats:
        from .c17 import collide
        js_b = collide(js, random.Random(rng.getrandbits(30)))
        try:
            node_b, _eb = RS.build(js_b)
        except Exception:
            node_b = None
        if node_b is not None and js_b != js:
            def interleaved():
                ga, gb = generate_many(copy.deepcopy(js), 4), generate_many(copy.deepcopy(js_b), 4)
                out_a, out_b = [], []
                for _ in range(4):
                    out_a.append(next(ga))
                    out_b.append(next(gb))
                return out_a, out_b
            st, res = guard(interleaved)
            if st == "exc":
                return ("generate-raised", "two generators advanced in turn (schemas sharing type names): %s" % exc_name(res), dict(info, other_schema=js_b))
            for nm, nd, vals2 in (("first", node, res[0]), ("second", node_b, res[1])):
                for v in vals2:
                    try:
                        fits = RC.conforms(nd, v) or RC.conforms(nd, v, loose=True)
                    except RecursionError:
                        fits = True
                    if not fits:
                        return ("value-does-not-conform", "two generators advanced in turn: a value of the %s, %s, does not conform to its own schema" % (nm, printable(v, 200)),
                                dict(info, other_schema=js_b, value=v))
            sh.count("interleaved_generators")
    # ---- the caller's schema object edited in place between two calls: the second call follows the new content
    if not parsed_input and isinstance(arg, dict):
        js2 = {"type": "record", "name": "VfEdited", "fields": [{"name": "a", "type": "long"}, {"name": "b", "type": ["null", "string"]},
                                                                 {"name": "c", "type": {"type": "enum", "name": "VfE", "symbols": ["x", "y"]}}]}
        node2, _env2 = RS.build(js2)
        arg.clear()
        arg.update(copy.deepcopy(js2))
        st, vals = guard(lambda: list(generate_many(arg, 3)) + [generate_one(arg)])
        if st == "exc":
            return ("generate-raised", "after the schema object was edited in place: %s" % exc_name(vals), dict(info, edited_to=js2))
        for v in vals:
            if not RC.conforms(node2, v):
                return ("value-does-not-conform", "after the schema object was edited in place, generated %s does not conform to its new content" % printable(v, 200), dict(info, edited_to=js2, value=v))
        sh.count("edited_in_place_checked")
    sh.count("schemas")
    if "logical" in feats:
        sh.count("logical_schemas")
    if "by_name_ref" in feats or "recursive" in feats:
        sh.count("reference_schemas")
    return None


TARGETED = [
    {"type": "error", "name": "Err", "fields": [{"name": "code", "type": "int"}]},
    {"type": "record", "name": "Outer", "fields": [{"name": "e", "type": {"type": "error", "name": "Inner", "fields": [{"name": "m", "type": "string"}]}}]},
    {"type": "record", "name": "P", "namespace": "d", "fields": [{"name": "a", "type": {"type": "fixed", "name": "F", "size": 3}}, {"name": "b", "type": ["null", "d.F", "F"][:2]}, {"name": "c", "type": {"type": "array", "items": "F"}}]},
    ["null", {"type": "enum", "name": "E", "symbols": ["ONLY"]}],
    {"type": "fixed", "name": "Z", "size": 0},
    {"type": "map", "values": {"type": "long", "logicalType": "timestamp-micros"}},
    {"type": "record", "name": "L", "fields": [{"name": "n", "type": ["null", "L"]}]},
    # annotations that do not go with the underlying type (or are unknown) are ignored: the
    # generated values are plain values of the underlying type
    {"type": "int", "logicalType": "timestamp-micros"},
    {"type": "record", "name": "Mis", "fields": [
        {"name": "a", "type": {"type": "int", "logicalType": "time-micros"}},
        {"name": "b", "type": {"type": "int", "logicalType": "timestamp-millis"}},
        {"name": "c", "type": {"type": "long", "logicalType": "date"}},
        {"name": "d", "type": {"type": "long", "logicalType": "time-millis"}},
        {"name": "e", "type": {"type": "string", "logicalType": "decimal", "precision": 4}},
        {"name": "f", "type": {"type": "bytes", "logicalType": "uuid"}},
        {"name": "g", "type": {"type": "int", "logicalType": "no-such-logical-type"}},
        {"name": "h", "type": {"type": "map", "values": ["null", {"type": "int", "logicalType": "local-timestamp-micros"}]}},
        {"name": "i", "type": {"type": "array", "items": {"type": "double", "logicalType": "date"}}}]},
    # an int-based logical branch ahead of a plain long: a value drawn for the long branch must
    # not be one the writer files under the narrower branch (where it cannot be read back)
    {"type": "array", "items": [{"type": "int", "logicalType": "date"}, "long"]},
    {"type": "record", "name": "DL", "fields": [
        {"name": "a", "type": {"type": "map", "values": [{"type": "int", "logicalType": "time-millis"}, "long", "null"]}},
        {"name": "b", "type": ["null", {"type": "int", "logicalType": "date"}, "long"]},
        {"name": "c", "type": {"type": "array", "items": [{"type": "int", "logicalType": "date"}, "string", "long"]}}]},
    # fixed types on both sides of sizes an implementation may treat specially
    {"type": "fixed", "name": "F257", "size": 257},
    {"type": "record", "name": "Blocks", "fields": [
        {"name": "a", "type": {"type": "fixed", "name": "F256", "size": 256}},
        {"name": "b", "type": ["null", {"type": "fixed", "name": "F512", "size": 512}]},
        {"name": "c", "type": {"type": "array", "items": "F512"}},
        {"name": "d", "type": {"type": "fixed", "name": "F4096", "size": 4096}},
        {"name": "e", "type": {"type": "fixed", "name": "D300", "size": 300, "logicalType": "decimal", "precision": 700, "scale": 2}},
        {"name": "f", "type": {"type": "map", "values": ["F4096", "string"]}},
        {"name": "g", "type": {"type": "fixed", "name": "F65537", "size": 65537}}]},
]


def run_shard(spec):
    import fastavro as fa
    from .. import harness

    harness.GUARD_SECONDS = 15  # generating / writing legitimate (bounded-depth) data takes well under a second
    sh = Shard(PID, spec)
    rng = rng_for("C20", spec["seed"], spec["shard"])

    def handle(js, feats, v):
        if v:
            key = sh.run_case(known.classify, "C20", fa, v, {"schema": js}, None, one_schema, sh, rng.getrandbits(30))
            sh.violation(v[0], v[1], v[2], known_key=key, what="%s: %s" % (v[0], v[1][:150]))

    if "replay" in spec:
        import base64, pickle

        info = pickle.loads(base64.b64decode(spec["replay"]["pickle"]))
        sh.case(None)
        for k in range(5):
            v = one_schema(sh, fa, rng_for("replay", k), info["schema"], set())
            if v:
                handle(info["schema"], set(), v)
                break
        return sh.result()
    if spec.get("witness"):
        for key, js in known.witnesses("C20").items():
            v = sh.run_case(one_schema, sh, fa, rng, js, set())
            handle(js, set(), v)
            sh.count("known_witnesses_replayed")
        for js in TARGETED:
            handle(js, set(), sh.run_case(one_schema, sh, fa, rng, js, set()))
            sh.count("targeted_schemas")
    i = 0
    while i < spec["n"] and not sh.out_of_time():
        i += 1
        js, feats = gen_schema(rng, bytes_defaults=0.4, union_default_any=True, logical=rng.random() < 0.4, max_nodes=14, max_depth=3)
        sh.feat(feats)
        v = sh.run_case(one_schema, sh, fa, rng, js, feats)
        handle(js, feats, v)
        if i % 100 == 1:
            sh.sample({"schema": js})
    return sh.result()

"""C03 — the decoder accepts every spec-valid encoding (any block layout),
on the read path and on the skip path, and rejects bad indices / short input."""
import copy
import io

from ..harness import Shard, rng_for, h64, schema_shape, datum_shape, printable, guard, guard_timed, exc_name
from ..gen.cases import gen_case, boundary_cases
from ..ref import schema as RS, binary as RB, conform as RC
from ..ref.schema import deref

PID = "C03"
LEVEL = "exploration"
RULE = (
    "value trees from the C01 generators are re-encoded by the independent layout "
    "encoder with, per array/map node, a random partition into blocks, each block in "
    "positive-count or negative-count+byte-size form (plus the all-singleton-negative "
    "layout and the writer's own layout); each layout is read directly, and as a field "
    "that a reader schema drops (skip path) bare and nested under array/map/union. "
    "Faults enumerated per case: every union/enum index position x bad values "
    "{-1,-n,-(n+1),n,n+1,2^31,2^62} on read and skip paths; every proper prefix of every "
    "layout <= 400 bytes (longer: first/last 64 offsets and every leaf boundary +-1). "
    "distinct = hash(schema shape, layout signature) / (position kind, bad value) / "
    "(cut class); non-trivial = layout differs from the single-block one or a fault was injected."
)
ASSUMPTIONS = [
    "any Exception counts as 'raises' (the statement names no type)",
    "an out-of-range enum index inside a skipped field may be ignored or raise (A4)",
    "layouts are spec-valid: block byte sizes are exact, counts non-zero except the terminator",
]
N = {"quick": 16000, "thorough": 160000}
TIME_LIMIT = {"quick": 45, "thorough": 560}
SHARDS = 16
REACH = {
    "quick": {"layouts_read": 3000, "layouts_multiblock": 200, "layouts_negative": 200,
              "skip_negative_block": 100, "nested_multiblock": 50,
              "bad_union_read_neg": 50, "bad_union_read_high": 50, "bad_union_skip_neg": 50,
              "bad_union_skip_high": 50, "bad_enum_read_neg": 50, "bad_enum_read_high": 50,
              "bad_enum_resolved_high": 50, "bad_enum_resolved_neg": 50, "bad_union_resolved_high": 50, "read_through_equivalent_reader": 1000,
              "prefix_in_varint": 200, "prefix_in_float": 200, "prefix_in_string": 200,
              "prefix_between": 200},
    "thorough": {"layouts_read": 100000},
}
WRAP = "VfWrap"


def plan(tier, seed):
    n = N[tier]
    return [{"shard": i, "n": n // SHARDS, "seed": seed, "boundary": i == 0, "tier": tier,
             "time_limit": TIME_LIMIT[tier]} for i in range(SHARDS)]


# ------------------------------------------------------------------ layouts
class Chooser:
    def __init__(self, rng, mode):
        self.rng = rng
        self.mode = mode
        self.sig = []

    def __call__(self, n, path):
        if n == 0:
            return []
        r = self.rng
        if self.mode == "single":
            out = [(n, False)]
        elif self.mode == "single_neg":
            out = [(n, True)]
        elif self.mode == "each_neg":
            out = [(1, True)] * n
        elif self.mode == "each_pos":
            out = [(1, False)] * n
        else:
            b = r.randint(1, min(n, 5))
            cuts = sorted(r.sample(range(1, n), b - 1)) if b > 1 else []
            sizes = [j - i for i, j in zip([0] + cuts, cuts + [n])]
            out = [(s, r.random() < 0.5) for s in sizes]
        self.sig.append((len(out), sum(1 for _c, neg in out if neg)))
        return out


def collections_in(tree, depth=0):
    """(number of non-empty collections, max nesting depth of them)."""
    k, v = tree[0], tree[1]
    if k == "union":
        return collections_in(v[1], depth)
    if k == "record":
        res = [collections_in(c, depth) for c in v]
        return (sum(r[0] for r in res), max([r[1] for r in res] + [depth]))
    if k in ("array", "map"):
        kids = [c if k == "array" else c[1] for c in v[0]]
        res = [collections_in(c, depth + 1) for c in kids]
        return ((1 if kids else 0) + sum(r[0] for r in res), max([r[1] for r in res] + [depth + (1 if kids else 0)]))
    return (0, depth)


def leaf_map(tree, out):
    """Record (start, end, kind) for leaves and index varints of a decoded tree."""
    k, v, s, e = tree
    if k == "union":
        out.append((s, v[1][2], "varint"))
        leaf_map(v[1], out)
    elif k == "record":
        for c in v:
            leaf_map(c, out)
    elif k in ("array", "map"):
        for c in v[0]:
            if k == "map":
                leaf_map(c[1], out)
            else:
                leaf_map(c, out)
    elif k in ("int", "long", "enum"):
        out.append((s, e, "varint"))
    elif k in ("float", "double"):
        out.append((s, e, "float"))
    elif k in ("string", "bytes", "fixed"):
        out.append((s, e, "string"))


def cut_class(leaves, off):
    for s, e, kind in leaves:
        if s < off < e:
            return kind
    return "between"


# ------------------------------------------------------------------- reading
def wrap_schema(js, how):
    if how == "bare":
        t = js
    elif how == "array":
        t = {"type": "array", "items": js}
    elif how == "map":
        t = {"type": "map", "values": js}
    else:
        t = ["null", js]
    w = {"type": "record", "name": WRAP, "fields": [{"name": "pre", "type": t}, {"name": "keep", "type": "long"}]}
    r = {"type": "record", "name": WRAP, "fields": [{"name": "keep", "type": "long"}]}
    return w, r


def wrap_bytes(body, how, rng):
    """Encoding of the wrapper's `pre` field given one encoded T."""
    if how == "bare":
        return body
    if how == "array":
        # two copies in two blocks, the second in negative form
        return RB.enc_long(1) + body + RB.enc_long(-1) + RB.enc_long(len(body)) + body + b"\x00"
    if how == "map":
        k1 = RB.enc_bytes(b"k")
        k2 = RB.enc_bytes("é".encode())
        e2 = k2 + body
        return RB.enc_long(-1) + RB.enc_long(len(k1 + body)) + k1 + body + RB.enc_long(1) + e2 + b"\x00"
    return RB.enc_long(1) + body


def reader_variant(js):
    """The same schema as a *different* reader schema: every enum gets a default, every named
    type a doc.  Resolution is then in force although every value is kept as it is."""
    def walk(n):
        if isinstance(n, list):
            return [walk(b) for b in n]
        if isinstance(n, dict):
            out = dict(n)
            t = n.get("type")
            if t == "enum":
                out.setdefault("default", n["symbols"][0])
                out["doc"] = "reader side"
            elif t == "fixed":
                out["doc"] = "reader side"
            elif t in ("record", "error"):
                out["doc"] = "reader side"
                out["fields"] = [dict(f, type=walk(f["type"])) for f in n["fields"]]
            elif t == "array":
                out["items"] = walk(n["items"])
            elif t == "map":
                out["values"] = walk(n["values"])
            elif isinstance(t, (dict, list)):
                out["type"] = walk(t)
            return out
        return n
    return walk(copy.deepcopy(js))


def read_direct(fa, schema_arg, data, **kw):
    return fa.schemaless_reader(io.BytesIO(data), schema_arg, **kw)


def read_skip(fa, w, r, data):
    return fa.schemaless_reader(io.BytesIO(data), w, r)


def one_case(sh, fa, rng, case, tier):
    js, node, datum = case["schema"], case["node"], case["datum"]
    tree0 = RC.from_datum(node, datum)
    expected = RB.to_py(node, tree0)
    ncoll, depth = collections_in(tree0)
    st, parsed = guard(fa.parse_schema, copy.deepcopy(js))
    if st == "exc":
        sh.violation("parse-rejected-valid-schema", "parse_schema raised %s on a specification-valid schema" % exc_name(parsed), {"schema": js, "datum": datum})
        return
    modes = ["single", "random", "random"]
    if ncoll:
        modes += ["each_neg", "single_neg", "each_pos", "random"]
    layouts = {}
    for mode in modes:
        ch = Chooser(rng, mode)
        data = RB.encode(node, tree0, ch)
        layouts.setdefault(data, (mode, tuple(ch.sig)))
    info0 = {"schema": js, "datum": datum}
    canon = None
    for data, (mode, sig) in layouts.items():
        info = dict(info0, layout=data.hex() if len(data) < 300 else data[:300].hex() + "...", mode=mode)
        multi = any(b > 1 for b, _n in sig)
        neg = any(n for _b, n in sig)
        sh.case(h64(schema_shape(js), sig), multi or neg)
        # (i) read path
        st, got = guard(read_direct, fa, parsed if rng.random() < 0.5 else copy.deepcopy(js), data)
        if st == "exc":
            sh.violation("valid-encoding-rejected", "reader raised %s on a spec-valid %s layout" % (exc_name(got), mode), info)
            return
        if not RC.same(got, expected):
            sh.violation("valid-encoding-misread", "layout %s read as %s, independent decoder gives %s"
                         % (mode, printable(got, 250), printable(expected, 250)), info)
            return
        sh.count("layouts_read")
        if multi:
            sh.count("layouts_multiblock")
        if neg:
            sh.count("layouts_negative")
        if multi and depth >= 2:
            sh.count("nested_multiblock")
        # (ii)/(iii) skip path
        for how in (["bare"] + ([rng.choice(["array", "map", "union"])] if not isinstance(js, list) else [rng.choice(["array", "map"])])):
            w, r = wrap_schema(js, how)
            keep = rng.choice([0, -1, 1 << 40, -(1 << 62)])
            blob = wrap_bytes(data, how, rng) + RB.enc_long(keep)
            st, got = guard(read_skip, fa, w, r, blob)
            if st == "exc":
                sh.violation("skip-rejected", "skipping a valid %s layout (%s) raised %s" % (mode, how, exc_name(got)), dict(info, how=how))
                return
            if got != {"keep": keep}:
                sh.violation("skip-misaligned", "after skipping (%s, %s) read %s, expected keep=%d" % (mode, how, printable(got, 200), keep), dict(info, how=how))
                return
            sh.count("skips_checked")
            if neg or how in ("array", "map"):
                sh.count("skip_negative_block")
        if mode == "single":
            canon = data
    # ---- faults on the canonical layout (spans known from the reference decode)
    data = canon
    tree = RB.decode_all(node, data)
    w, r = wrap_schema(js, "bare")
    rvar = reader_variant(js)
    if rvar == js:
        rvar = None
    else:
        st, got = guard(read_skip, fa, parsed, rvar, data)
        if st == "exc" or not RC.same(got, expected):
            sh.violation("valid-encoding-misread", "read through an equivalent reader schema (docs, enum defaults added): %s, independent decoder gives %s"
                         % (exc_name(got) if st == "exc" else printable(got, 200), printable(expected, 200)), dict(info0, reader=rvar))
            return
        sh.count("read_through_equivalent_reader")
    for what, n, s, e in list(RB.index_positions(node, tree))[:12]:
        for bad in (-1, -n, -(n + 1), n, n + 1, 1 << 31, 1 << 62):
            mutated = data[:s] + RB.enc_long(bad) + data[e:]
            cls = "neg" if bad < 0 else "high"
            info = dict(info0, position=(what, s), bad_index=bad, n=n, bytes=mutated[:200].hex())
            sh.case(h64(what, cls, bad if abs(bad) < 10 else "big"), True)
            st, got = guard_timed(3.0, read_direct, fa, parsed, mutated)
            sh.count("bad_%s_read_%s" % (what, cls))
            if st == "hang":
                sh.count("hangs_inconclusive")
                continue
            if st == "ok":
                sh.violation("bad-index-accepted", "%s index %d (of %d) on the read path returned %s" % (what, bad, n, printable(got, 200)), info)
                return
            if rvar is not None:
                st, got = guard_timed(3.0, read_skip, fa, parsed, rvar, mutated)
                sh.count("bad_%s_resolved_%s" % (what, cls))
                if st == "ok":
                    sh.violation("bad-index-accepted", "%s index %d (of %d) read through a reader schema returned %s" % (what, bad, n, printable(got, 200)), dict(info, reader=rvar))
                    return
            st, got = guard_timed(3.0, read_skip, fa, w, r, mutated + b"\x02")
            sh.count("bad_%s_skip_%s" % (what, cls))
            if st == "hang":
                sh.count("hangs_inconclusive")
                continue
            if st == "ok" and what == "union":
                sh.violation("bad-index-accepted-skip", "union index %d (of %d) in a skipped field returned %s" % (bad, n, printable(got, 200)), info)
                return
            # the same inside a skipped collection whose only block announces its byte size
            for how in ("array", "map"):
                ws, rs = wrap_schema(js, how)
                entry = (RB.enc_bytes(b"k") if how == "map" else b"") + mutated
                blob = RB.enc_long(-1) + RB.enc_long(len(entry)) + entry + b"\x00" + b"\x02"
                st, got = guard_timed(3.0, read_skip, fa, ws, rs, blob)
                sh.count("bad_%s_skip_sized_block" % what)
                if st == "ok" and what == "union":
                    sh.violation("bad-index-accepted-skip", "union index %d (of %d) in a skipped %s block announced with its byte size returned %s"
                                 % (bad, n, how, printable(got, 200)), dict(info, how=how))
                    return
    # ---- every proper prefix
    leaves = []
    leaf_map(tree, leaves)
    L = len(data)
    if L <= 400:
        offs = range(L)
    else:
        offs = sorted(set(list(range(64)) + list(range(L - 64, L)) + [o + d for s_, e_, _k in leaves[:200] for o in (s_, e_) for d in (-1, 0, 1) if 0 <= o + d < L]))
    for off in offs:
        cls = cut_class(leaves, off)
        sh.case(h64("prefix", cls, schema_shape(js)) if off % 7 == 0 else None, True)
        # a short read is a short read under every handling of undecodable text
        hue = (None, "replace", "ignore")[off % 3]
        st, got = guard(read_direct, fa, parsed, data[:off], **({"handle_unicode_errors": hue} if hue else {}))
        if hue:
            sh.count("prefix_nonstrict_unicode")
        sh.count("prefix_in_" + cls if cls != "between" else "prefix_between")
        if st == "ok":
            sh.violation("prefix-accepted", "a %d-byte proper prefix of a %d-byte encoding (cut %s, handle_unicode_errors=%s) returned %s" % (off, L, cls, hue, printable(got, 200)),
                         dict(info0, cut=off, bytes=data[:off][-60:].hex(), handle_unicode_errors=hue))
            return
    # the skipped field is the LAST thing in the encoding: nothing after it can reveal a short read
    wp = {"type": "record", "name": WRAP, "fields": [{"name": "keep", "type": "long"}, {"name": "post", "type": js}]}
    rp = {"type": "record", "name": WRAP, "fields": [{"name": "keep", "type": "long"}]}
    blob = b"\x04" + data
    st, got = guard(read_skip, fa, wp, rp, blob)
    if st == "exc" or got != {"keep": 2}:
        sh.violation("skip-rejected", "skipping a trailing field raised/misread: %s" % (exc_name(got) if st == "exc" else printable(got, 100)), dict(info0, how="post"))
        return
    for off in (range(1, len(blob)) if len(blob) <= 120 else sorted(rng.sample(range(1, len(blob)), 40))):
        st, got = guard(read_skip, fa, wp, rp, blob[:off])
        sh.count("prefix_skip_path_trailing")
        if st == "ok":
            sh.violation("prefix-accepted-skip", "a %d-byte prefix of a %d-byte record whose skipped field comes last returned %s" % (off, len(blob), printable(got, 200)),
                         dict(info0, cut=off, how="post"))
            return
    # prefixes through the skip path (cut inside the skipped field)
    blob = data + b"\x02"
    for off in (range(len(blob)) if len(blob) <= 120 else rng.sample(range(len(blob)), 40)):
        st, got = guard(read_skip, fa, w, r, blob[:off])
        sh.count("prefix_skip_path")
        if st == "ok":
            sh.violation("prefix-accepted-skip", "a %d-byte prefix of a %d-byte record with a skipped field returned %s" % (off, len(blob), printable(got, 200)),
                         dict(info0, cut=off))
            return


def run_shard(spec):
    import fastavro as fa

    sh = Shard(PID, spec)
    if "replay" in spec:
        import base64, pickle

        info = pickle.loads(base64.b64decode(spec["replay"]["pickle"]))
        node, env = RS.build(info["schema"])
        case = {"schema": info["schema"], "node": node, "env": env, "datum": info["datum"], "features": set()}
        for k in range(5):
            one_case(sh, fa, rng_for("replay", k), case, "quick")
        return sh.result()
    rng = rng_for("C03", spec["seed"], spec["shard"])
    cases = []
    if spec.get("boundary"):
        for js, d, feats in boundary_cases():
            if "omit_mask" in feats and d:
                continue
            node, env = RS.build(js)
            cases.append({"schema": js, "node": node, "env": env, "datum": d, "features": set(feats)})
    nb = len(cases)
    i = 0
    while i < spec["n"] + nb and not (i >= nb and sh.out_of_time()):
        case = cases[i] if i < nb else gen_case(rng, dict(bytes_defaults=0.0), dict(big=0.01, size_budget=120))
        if i >= nb and rng.random() < 0.1 and "record" in repr(case["schema"]):
            # records declared with the kind "error": decoded and skipped like any record
            from ..gen.schema import errorize
            case["schema"] = errorize(case["schema"], rng)
            case["node"], case["env"] = RS.build(case["schema"])
            sh.count("error_kind_schemas")
        i += 1
        sh.feat(case["features"])
        sh.run_case(one_case, sh, fa, rng, case, spec["tier"])
        if i % 40 == 1:
            sh.sample({"schema": case["schema"], "datum": printable(case["datum"], 200)})
    return sh.result()

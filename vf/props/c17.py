"""C17 — results depend only on arguments: no state leaks across calls,
inputs intact.  History + fresh-interpreter oracle."""
import copy
import io
import json
import os
import pickle
import random
import struct
import sys

from ..harness import Shard, rng_for, h64, printable, guard, exc_name
from ..gen.cases import gen_case
from ..gen.datum import DatumGen
from ..gen.mutate import mutate
from ..ref import schema as RS, conform as RC

PID = "C17"
LEVEL = "exploration"
RULE = (
    "histories of 8-20 public calls in ONE process drawn from {parse_schema (fresh or shared "
    "named-schema dictionary), schemaless_writer/reader (also with a reader schema), writer/reader "
    "(container), validate, validate_many, to_parsing_canonical_form, fingerprint, json_writer, "
    "json_reader, generate_many (seeded per call), load_schema, expand_schema} over a small pool of "
    "schemas that reuse the same full names with different definitions, with parsed-schema objects "
    "and named-schema dictionaries reused across calls, and with calls built to fail midway (bad "
    "datum in the last field, truncated input, unknown reference after some definitions). Oracle: "
    "the arguments are pickled just before each call and the same call is executed FIRST in a fresh "
    "interpreter state (a fork of a zygote that imported fastavro and made no call): observation "
    "(value / bytes / exception class) must be equal; deep fingerprints of schema and data "
    "arguments must be unchanged by the call (the caller's named-schema dictionary may grow). "
    "distinct = hash(call-kind sequence, which objects are shared); non-trivial = history shares an "
    "object or repeats a full name with another definition."
)
ASSUMPTIONS = [
    "a fork of a process that imported fastavro and made no fastavro call stands for 'a fresh interpreter' (import-time state is the same)",
    "the metadata dict handed to writer is extended in place by design; it is neither schema nor datum (A28): recorded, not judged",
    "random-dependent calls are seeded inside the call",
]
N = {"quick": 1920, "thorough": 64000}
TIME_LIMIT = {"quick": 40, "thorough": 560}
SHARDS = 16
REACH = {
    "quick": {"fresh_comparisons": 3000, "histories": 300, "failed_call_then_dependent_call": 50, "shared_parsed_reader_reads": 300,
              "name_collision_pairs": 100, "reused_parsed_schema": 100, "argument_snapshots": 3000},
    "thorough": {"fresh_comparisons": 100000},
}


def plan(tier, seed):
    n = N[tier]
    return [{"shard": i, "n": n // SHARDS, "seed": seed, "tier": tier, "time_limit": TIME_LIMIT[tier]}
            for i in range(SHARDS)]


# ---------------------------------------------------------------- operations
def strip(x, depth=0):
    """Observation normal form: parsed-schema marker tables removed, tuples -> lists."""
    if depth > 60:
        return "<deep>"
    if isinstance(x, dict):
        return {k: strip(v, depth + 1) for k, v in x.items() if k != "__named_schemas"}
    if isinstance(x, (list, tuple)):
        return [strip(v, depth + 1) for v in x]
    return x


def op_parse(fa, schema, named):
    r = fa.parse_schema(schema, named) if named is not None else fa.parse_schema(schema)
    return strip(r), sorted(named) if named is not None else None


def op_swrite(fa, schema, datum):
    b = io.BytesIO()
    fa.schemaless_writer(b, schema, datum)
    return b.getvalue()


def op_swrite_opts(fa, schema, datum, opts):
    b = io.BytesIO()
    fa.schemaless_writer(b, schema, datum, **opts)
    return b.getvalue()


def op_cwrite_opts(fa, schema, records, opts):
    b = io.BytesIO()
    fa.writer(b, schema, records, sync_marker=b"\x15" * 16, **opts)
    return b.getvalue()


def op_sread(fa, data, schema, reader_schema):
    return fa.schemaless_reader(io.BytesIO(data), schema, reader_schema) if reader_schema is not None else fa.schemaless_reader(io.BytesIO(data), schema)


def op_cwrite(fa, schema, records, codec):
    b = io.BytesIO()
    fa.writer(b, schema, records, codec=codec, sync_marker=b"\x11" * 16)
    return b.getvalue()


def op_cwrite_meta(fa, schema, records, codec, metadata):
    """container write with a caller-owned metadata dict (one dict object serves a whole history)"""
    b = io.BytesIO()
    fa.writer(b, schema, records, codec=codec, sync_marker=b"\x12" * 16, metadata=metadata)
    return b.getvalue()


def op_cappend(fa, existing, schema, records):
    """records appended to an existing container file (stream handed over at its end)"""
    b = io.BytesIO(existing)
    b.seek(0, 2)
    fa.writer(b, schema, records)
    return b.getvalue(), list(fa.reader(io.BytesIO(b.getvalue())))


def op_tee_block(fa, data, codec_a, codec_b, look_first):
    """every block of a file copied into two new files; the Block objects are inputs and stay usable"""
    from fastavro.write import Writer

    src = fa.block_reader(io.BytesIO(data))
    schema = src.writer_schema
    outs = [io.BytesIO(), io.BytesIO()]
    ws = [Writer(outs[0], schema, codec=codec_a, sync_marker=b"\x13" * 16), Writer(outs[1], schema, codec=codec_b, sync_marker=b"\x14" * 16)]
    seen = []
    for block in src:
        # a Block is iterated at most once here (its iterator is one-shot by design)
        if look_first:
            seen.append(list(block))
        for w in ws:
            w.write_block(block)
        if not look_first:
            seen.append(list(block))
    for w in ws:
        w.flush()
    return [list(fa.reader(io.BytesIO(o.getvalue()))) for o in outs], seen


def op_cread(fa, data, reader_schema):
    r = fa.reader(io.BytesIO(data), reader_schema=reader_schema) if reader_schema is not None else fa.reader(io.BytesIO(data))
    return list(r), strip(r.writer_schema), r.codec


def op_validate(fa, datum, schema, strict):
    return fa.validate(datum, schema, raise_errors=False, strict=strict)


def op_validate_many(fa, data, schema):
    from fastavro.validation import validate_many

    return validate_many(data, schema, raise_errors=True)


def op_pcf(fa, schema):
    from fastavro.schema import to_parsing_canonical_form, fingerprint

    t = to_parsing_canonical_form(schema)
    return t, fingerprint(t, "CRC-64-AVRO"), fingerprint(t, "sha256")


def op_jwrite(fa, schema, records):
    s = io.StringIO()
    fa.json_writer(s, schema, records)
    return s.getvalue()


def op_jread(fa, text, schema):
    return list(fa.json_reader(io.StringIO(text), schema))


def op_generate(fa, schema, seed, n):
    from fastavro.utils import generate_many
    import re

    random.seed(seed)
    out = list(generate_many(schema, n))
    return json.loads(re.sub(r'"[0-9a-f]{32}"', '"<uuid4>"', json.dumps(out, default=repr)))


def op_gen_roundtrip(fa, schema, seed):
    """generate -> write -> read: raw generated values (e.g. random bytes under a
    decimal) go through the reader's logical conversions"""
    from fastavro.utils import generate_many

    random.seed(seed)
    out = []
    for v in generate_many(schema, 2):
        b = io.BytesIO()
        fa.schemaless_writer(b, schema, v)
        out.append(_mask_uuids(fa.schemaless_reader(io.BytesIO(b.getvalue()), schema)))
    return out


def _mask_uuids(x):
    """uuid4() does not draw from `random`; mask what it produced."""
    import re
    import uuid

    if isinstance(x, uuid.UUID):
        return "<uuid4>"
    if isinstance(x, str):
        return "<uuid4>" if re.fullmatch(r"[0-9a-f]{32}", x) else x
    if isinstance(x, dict):
        return {k: _mask_uuids(v) for k, v in x.items()}
    if isinstance(x, (list, tuple)):
        return [_mask_uuids(v) for v in x]
    return x


def op_expand(fa, schema):
    from fastavro.schema import expand_schema

    return strip(expand_schema(schema))


def op_load(fa, path):
    from fastavro.schema import load_schema

    return strip(load_schema(path))


OPS = {f.__name__[3:]: f for f in (op_parse, op_swrite, op_swrite_opts, op_cwrite_opts, op_sread, op_cwrite, op_cwrite_meta, op_cappend, op_tee_block, op_cread, op_validate, op_validate_many,
                                   op_pcf, op_jwrite, op_jread, op_generate, op_gen_roundtrip, op_expand, op_load)}


def observe(fa, name, args):
    from ..harness import guard_timed

    st, v = guard_timed(20, OPS[name], fa, *args)
    if st == "exc":
        return ("exc", type(v).__name__)
    if st == "hang":
        return ("exc", "Hang")
    return ("ok", v)


# -------------------------------------------------------------------- zygote
class Zygote:
    """A process forked before any fastavro call was made; every request is
    served by a fresh fork of it."""

    def __init__(self, fa):
        self.req_r, self.req_w = os.pipe()
        self.res_r, self.res_w = os.pipe()
        self.pid = os.fork()
        if self.pid == 0:
            os.close(self.req_w)
            os.close(self.res_r)
            self._serve(fa)
            os._exit(0)
        os.close(self.req_r)
        os.close(self.res_w)

    @staticmethod
    def _read(fd, n):
        buf = b""
        while len(buf) < n:
            chunk = os.read(fd, n - len(buf))
            if not chunk:
                raise EOFError
            buf += chunk
        return buf

    def _serve(self, fa):
        while True:
            try:
                n = struct.unpack("<I", self._read(self.req_r, 4))[0]
            except EOFError:
                return
            blob = self._read(self.req_r, n)
            r, w = os.pipe()
            pid = os.fork()
            if pid == 0:
                os.close(r)
                try:
                    name, args = pickle.loads(blob)
                    out = pickle.dumps(observe(fa, name, args), protocol=4)
                except BaseException as e:  # noqa
                    out = pickle.dumps(("exc", "harness:" + type(e).__name__ + ":" + str(e)[:200]), protocol=4)
                os.write(w, struct.pack("<I", len(out)))
                pos = 0
                while pos < len(out):
                    pos += os.write(w, out[pos:pos + 65536])
                os._exit(0)
            os.close(w)
            try:
                m = struct.unpack("<I", self._read(r, 4))[0]
                res = self._read(r, m)
            except EOFError:
                res = pickle.dumps(("exc", "harness:child-died"))
            os.close(r)
            os.waitpid(pid, 0)
            os.write(self.res_w, struct.pack("<I", len(res)))
            pos = 0
            while pos < len(res):
                pos += os.write(self.res_w, res[pos:pos + 65536])

    def call(self, blob):
        os.write(self.req_w, struct.pack("<I", len(blob)))
        pos = 0
        while pos < len(blob):
            pos += os.write(self.req_w, blob[pos:pos + 65536])
        m = struct.unpack("<I", self._read(self.res_r, 4))[0]
        return pickle.loads(self._read(self.res_r, m))

    def close(self):
        try:
            os.close(self.req_w)
            os.waitpid(self.pid, 0)
        except Exception:
            pass


# ----------------------------------------------------------------- snapshots
def fingerprint(x, seen=None, depth=0):
    """Type-tagged, cycle-safe, identity-insensitive structural fingerprint."""
    if seen is None:
        seen = {}
    if depth > 80:
        return "deep"
    if isinstance(x, (str, bytes, int, float, bool, type(None))):
        return (type(x).__name__, repr(x))
    if id(x) in seen:
        return ("cycle", seen[id(x)])
    seen[id(x)] = len(seen)
    if isinstance(x, dict) or hasattr(x, "keys"):
        return ("D", type(x).__name__, tuple((repr(k), fingerprint(x[k], seen, depth + 1)) for k in x.keys()))
    if isinstance(x, (list, tuple, bytearray)):
        return ("L", type(x).__name__, tuple(fingerprint(v, seen, depth + 1) for v in x))
    return ("O", type(x).__name__, repr(x)[:200])


def first_diff(a, b, path="$"):
    """Path and the two values at the first structural difference."""
    if isinstance(a, dict) and isinstance(b, dict):
        for k in a:
            if k not in b:
                return "%s: key %r only in the first" % (path, k)
        for k in b:
            if k not in a:
                return "%s: key %r only in the second" % (path, k)
        for k in a:
            if not RC.same(a[k], b[k]):
                return first_diff(a[k], b[k], "%s[%r]" % (path, k))
    if isinstance(a, (list, tuple)) and isinstance(b, (list, tuple)):
        if len(a) != len(b):
            return "%s: lengths %d vs %d" % (path, len(a), len(b))
        for i, (x, y) in enumerate(zip(a, b)):
            if not RC.same(x, y):
                return first_diff(x, y, "%s[%d]" % (path, i))
    return "%s: %s vs %s" % (path, printable(a, 120), printable(b, 120))


def same_obs(a, b):
    if a[0] != b[0]:
        return False
    if a[0] == "exc":
        return a[1] == b[1]
    return RC.same(strip(a[1]), strip(b[1]))


# ------------------------------------------------------------------ histories
def collide(js, rng):
    """A different definition under the same names: change one thing, keep names."""
    js = copy.deepcopy(js)

    def walk(n):
        if isinstance(n, list):
            for b in n:
                if walk(b):
                    return True
        elif isinstance(n, dict):
            t = n.get("type")
            if t == "enum":
                n["symbols"] = list(reversed(n["symbols"])) + ["ZZ"]
                n.pop("default", None)
                return True
            if t == "fixed":
                n["size"] = n["size"] + 2
                n.pop("logicalType", None)
                return True
            if t == "record":
                for f in n.get("fields", []):
                    if walk(f["type"]):
                        return True
                n["fields"] = [{"name": "other", "type": "string", "default": "x"}] + n.get("fields", [])
                for f in n["fields"]:
                    pass
                return True
            if t == "array":
                return walk(n["items"])
            if t == "map":
                return walk(n["values"])
        return False

    walk(js)
    return js


S4 = {"type": "record", "name": "J4", "namespace": "c17", "fields": [
    {"name": "id", "type": "int"},
    {"name": "tags", "type": [{"type": "array", "items": "string"}, "null"], "default": ["a", "b"]},
    {"name": "props", "type": [{"type": "map", "values": "int"}, "null"], "default": {"k": 1, "l": 2}},
    {"name": "plain", "type": {"type": "array", "items": "int"}, "default": [1, 2, 3]}]}


def build_history(rng, scratch):
    """A list of steps; each step = (op name, args builder reading the env)."""
    env = {}
    base = gen_case(rng, dict(bytes_defaults=0.4, union_default_any=True, max_nodes=12, max_depth=3, top_kinds=["record"] if rng.random() < 0.7 else None,
                              logical=rng.random() < 0.3),
                    dict(size_budget=25, big=0.0, mappings=0.0))
    s1 = base["schema"]
    s2 = collide(s1, rng)
    try:
        n2, _ = RS.build(s2)
    except Exception:
        s2, n2 = copy.deepcopy(s1), base["node"]
    schemas = {"s1": (s1, base["node"]), "s2": (s2, n2)}
    third = gen_case(rng, dict(bytes_defaults=0.4, max_nodes=10, max_depth=3, logical=True, top_kinds=["record"]),
                     dict(size_budget=20, big=0.0, mappings=0.0))
    schemas["s3"] = (third["schema"], third["node"])
    # a hand-made schema whose union-typed fields have non-empty array / map defaults (mutable
    # objects of the schema that a decoder filling in absent fields must not consume)
    s4 = copy.deepcopy(S4)
    schemas["s4"] = (s4, RS.build(s4)[0])
    return schemas


def make_repo(rng, scratch, hidx):
    """A small on-disk schema repository for the load_schema steps."""
    from .c19 import gen_repo

    types, root, _edges = gen_repo(rng)
    d = os.path.join(scratch, "repo-%d" % hidx)
    os.makedirs(d, exist_ok=True)
    for full, js in types.items():
        with open(os.path.join(d, full + ".avsc"), "w") as f:
            json.dump(js, f)
    return d, root, sorted(types)


def run_history(sh, fa, zy, rng, scratch, hidx):
    schemas = build_history(rng, scratch)
    repo_dir, repo_root, repo_types = make_repo(rng, scratch, hidx)
    try:
        return _run_history(sh, fa, zy, rng, scratch, hidx, schemas, repo_dir, repo_root, repo_types)
    finally:
        import shutil

        shutil.rmtree(repo_dir, ignore_errors=True)


def _run_history(sh, fa, zy, rng, scratch, hidx, schemas, repo_dir, repo_root, repo_types):
    objs = {}  # shared objects across calls: parsed schemas, named dictionaries, data
    for k, (js, node) in schemas.items():
        objs["raw_" + k] = copy.deepcopy(js)
    named_shared = {}
    trace = []
    failed_before = False
    nsteps = rng.randint(8, 20)
    shared_used = False
    collided = False
    last_schema_key = None
    for step in range(nsteps):
        which = rng.choice(["s1", "s1", "s2", "s3", "s4"])
        js, node = schemas[which]
        if last_schema_key and last_schema_key != which:
            collided = True
            sh.count("name_collision_pairs")
        last_schema_key = which
        # schema argument: raw (shared object), or a parsed object created earlier in this history
        form = rng.choice(["raw", "raw", "parsed"])
        if form == "parsed" and ("parsed_" + which) in objs:
            sarg = objs["parsed_" + which]
            shared_used = True
            sh.count("reused_parsed_schema")
        else:
            sarg = objs["raw_" + which]
        d = DatumGen(rng, size_budget=20, big=0.0, mappings=0.0).gen(node)
        if RC.float_out_of_range(node, d) or RC.raw_under_logical(node, d):
            continue
        bad = None
        if rng.random() < 0.25:
            m = mutate(node, d, rng)
            if m is not None:
                bad = m[0]
        kind = rng.choice(["parse", "parse_shared", "swrite", "sread", "cwrite", "cread", "validate", "validate_many", "pcf",
                           "jwrite", "jread", "generate", "expand", "swrite_bad", "sread_trunc", "parse_unknown_ref", "cwrite_bad",
                           "gen_roundtrip", "gen_roundtrip", "dangling_ref", "dangling_ref", "load", "load_other",
                           "cwrite_meta", "cwrite_meta", "tee_block", "swrite_opts", "swrite_opts", "cwrite_opts",
                           "sread_shared_reader", "sread_shared_reader", "cappend", "cappend", "parse_bad_enum_default"])
        name, args, data_args = None, None, []
        if kind == "parse":
            name, args = "parse", (sarg, None)
        elif kind == "parse_shared":
            name, args = "parse", (sarg, named_shared)
            shared_used = True
        elif kind == "swrite":
            name, args = "swrite", (sarg, d)
        elif kind in ("swrite_opts", "cwrite_opts"):
            # the rarely used writer options; complete data (no omitted field) so that strict modes can succeed
            full = DatumGen(rng, size_budget=20, big=0.0, mappings=0.0, omit_defaults=0.0).gen(node)
            if RC.float_out_of_range(node, full) or RC.raw_under_logical(node, full):
                continue
            opts = rng.choice([{"strict": True}, {"strict_allow_default": True}, {"disable_tuple_notation": True},
                               {"strict": True, "disable_tuple_notation": True}])
            if kind == "cwrite_opts" and rng.random() < 0.5:
                # a codec with its rarely used level option (whatever a level keeps between calls would show in the bytes)
                opts = {"codec": "deflate", "codec_compression_level": rng.choice([1, 6, 9]), "sync_interval": rng.choice([1, 10**6])}
            victim = rng.choice([full, full, d] + ([bad] if bad is not None else []))
            if kind == "swrite_opts":
                name, args = "swrite_opts", (sarg, victim, opts)
            else:
                name, args = "cwrite_opts", (sarg, [full, victim], dict(opts, validator=rng.random() < 0.5))
        elif kind == "swrite_bad" and bad is not None:
            name, args = "swrite", (sarg, bad)
        elif kind == "sread":
            st, raw = guard(op_swrite, fa, copy.deepcopy(js), d)
            if st == "ok":
                okey = "s2" if which == "s1" else "s1"
                other = schemas[okey][0]
                # (a parsed reader schema object that earlier and later reads share, met by data of
                # this and of the other definition of the same names)
                rs = rng.choice([None, None, objs["raw_" + which], copy.deepcopy(other), objs.get("parsed_" + okey), objs.get("parsed_" + which), objs.get("parsed_s1")])
                if rs is not None and rs is objs.get("parsed_" + okey):
                    sh.count("shared_parsed_reader_other_writer")
                name, args = "sread", (raw, sarg, rs)
        elif kind == "sread_shared_reader" and which in ("s1", "s2"):
            # one parsed reader schema object for the whole history, met by data written under
            # either definition of its names (s1 / s2), directly and in a container
            if "parsed_reader" not in objs:
                st, ps = guard(fa.parse_schema, copy.deepcopy(schemas["s2"][0]))
                if st == "ok":
                    objs["parsed_reader"] = ps
            if "parsed_reader" in objs:
                if rng.random() < 0.6:
                    st, raw = guard(op_swrite, fa, copy.deepcopy(js), d)
                    if st == "ok":
                        name, args = "sread", (raw, copy.deepcopy(js), objs["parsed_reader"])
                else:
                    st, raw = guard(op_cwrite, fa, copy.deepcopy(js), [d, d], "null")
                    if st == "ok":
                        name, args = "cread", (raw, objs["parsed_reader"])
                sh.count("shared_parsed_reader_reads")
        elif kind == "sread_trunc":
            st, raw = guard(op_swrite, fa, copy.deepcopy(js), d)
            if st == "ok" and len(raw) > 1:
                name, args = "sread", (raw[: rng.randrange(len(raw))], sarg, None)
        elif kind == "cwrite":
            name, args = "cwrite", (sarg, [d, d], rng.choice(["null", "deflate"]))
        elif kind == "cwrite_meta":
            # the caller's metadata dict is an input like any other, and is reused by later calls
            meta = objs.setdefault("meta", {"origin": "history %d" % hidx, "k": "v"})
            name, args = "cwrite_meta", (sarg, [d], rng.choice(["null", "deflate", "bzip2"]), meta)
        elif kind == "cappend" and which in ("s1", "s2"):
            # appending to a file whose own schema is this one or the OTHER definition of the same
            # names, with the (possibly parsed and shared) schema object as argument
            fkey = rng.choice(["s1", "s2"])
            fjs, fnode = schemas[fkey]
            fd = DatumGen(rng, size_budget=20, big=0.0, mappings=0.0).gen(fnode)
            if not (RC.float_out_of_range(fnode, fd) or RC.raw_under_logical(fnode, fd)):
                st, raw = guard(op_cwrite, fa, copy.deepcopy(fjs), [fd], rng.choice(["null", "deflate"]))
                if st == "ok":
                    name, args = "cappend", (raw, sarg, [fd if rng.random() < 0.7 else d])
                    if fkey != which:
                        sh.count("append_to_file_of_other_definition")
        elif kind == "parse_bad_enum_default":
            # the same schema with an enum default outside its symbol list: refused, however often
            # the well-formed enum of these symbols has been parsed before
            bad_js = copy.deepcopy(js)
            hit = []

            def spoil(n):
                if isinstance(n, list):
                    for b in n:
                        spoil(b)
                elif isinstance(n, dict):
                    if n.get("type") == "enum" and not hit:
                        n["default"] = "NOT_A_SYMBOL_OF_IT"
                        hit.append(1)
                    for k in ("items", "values", "type"):
                        if isinstance(n.get(k), (dict, list)):
                            spoil(n[k])
                    for f in n.get("fields", []) if isinstance(n.get("fields"), list) else []:
                        spoil(f["type"])

            spoil(bad_js)
            if hit:
                name, args = rng.choice([("parse", (bad_js, None)), ("pcf", (bad_js,)), ("swrite", (bad_js, d))])
                sh.count("ill_formed_twin_after_valid_schema")
        elif kind == "tee_block":
            st, raw = guard(op_cwrite, fa, copy.deepcopy(js), [d, d, d], rng.choice(["null", "deflate"]))
            if st == "ok":
                name, args = "tee_block", (raw, rng.choice(["null", "deflate"]), rng.choice(["null", "xz"]), rng.random() < 0.5)
        elif kind == "cwrite_bad" and bad is not None:
            name, args = "cwrite", (sarg, [d, bad], "null")
        elif kind == "cread":
            st, raw = guard(op_cwrite, fa, copy.deepcopy(js), [d], "null")
            if st == "ok":
                name, args = "cread", (raw if rng.random() < 0.8 else raw[: len(raw) - rng.randint(1, 20)],
                                       rng.choice([None, None, sarg, objs.get("parsed_s1"), objs.get("parsed_s2")]))
        elif kind == "validate":
            if rng.random() < 0.5:
                # data on which the options make a difference: omitted nullable fields, hints, extra keys
                d2 = DatumGen(rng, size_budget=20, big=0.0, mappings=0.0, omit_nullable=0.4, hints=0.3, extras=0.2).gen(node)
                if not (RC.float_out_of_range(node, d2) or RC.raw_under_logical(node, d2)):
                    d = d2
            name, args = "validate", (bad if bad is not None and rng.random() < 0.3 else d, sarg, rng.random() < 0.3)
        elif kind == "validate_many":
            name, args = "validate_many", ([d] + ([bad] if bad is not None else []), sarg)
        elif kind == "pcf":
            name, args = "pcf", (sarg,)
        elif kind == "jwrite":
            name, args = "jwrite", (sarg, [d])
        elif kind == "jread":
            st, txt = guard(op_jwrite, fa, copy.deepcopy(js), [d, d])
            if st == "ok":
                if isinstance(js, dict) and js.get("type") == "record" and rng.random() < 0.5:
                    docs = [json.loads(l) for l in txt.split("\n")]
                    for doc in docs:
                        for f in js.get("fields", []):
                            if "default" in f and rng.random() < 0.7:
                                doc.pop(f["name"], None)
                    txt = "\n".join(json.dumps(x) for x in docs)
                name, args = "jread", (txt, sarg)
        elif kind == "generate":
            name, args = "generate", (sarg, rng.randrange(1000), 2)
        elif kind == "expand":
            name, args = "expand", (sarg,)
        elif kind == "gen_roundtrip":
            name, args = "gen_roundtrip", (sarg, rng.randrange(1000))
        elif kind == "load":
            name, args = "load", (os.path.join(repo_dir, repo_root + ".avsc"),)
        elif kind == "load_other":
            # a non-root type, or a file that does not exist
            name, args = "load", (os.path.join(repo_dir, rng.choice(repo_types + ["no.such.Type"]) + ".avsc"),)
        elif kind == "dangling_ref":
            # a schema that refers to a type defined only by ANOTHER schema of this history
            from ..gen.evolve import definitions
            others = [k for k in schemas if k != which]
            foreign = [f for o in others for f in definitions(schemas[o][0]) if "." in f or True]
            own = set(definitions(js)) if isinstance(js, (dict, list)) else set()
            foreign = [f for f in foreign if f not in own]
            if foreign and isinstance(js, dict) and js.get("type") == "record":
                dangling = copy.deepcopy(js)
                dangling["fields"] = list(dangling.get("fields", [])) + [{"name": "zz_dangling", "type": ["null", rng.choice(foreign)], "default": None}]
                how = rng.choice(["swrite", "sread", "validate", "pcf", "parse", "cwrite"])
                if how == "swrite":
                    name, args = "swrite", (dangling, d)
                elif how == "sread":
                    st, raw = guard(op_swrite, fa, copy.deepcopy(js), d)
                    if st == "ok":
                        name, args = "sread", (raw + b"\x00", dangling, None)
                elif how == "validate":
                    name, args = "validate", (d, dangling, False)
                elif how == "pcf":
                    name, args = "pcf", (dangling,)
                elif how == "cwrite":
                    name, args = "cwrite", (dangling, [d], "null")
                else:
                    name, args = "parse", (dangling, None)
        elif kind == "parse_unknown_ref":
            if isinstance(js, dict) and js.get("type") == "record":
                broken = copy.deepcopy(js)
                broken.setdefault("fields", []).append({"name": "zz_unknown", "type": "no.such.Type"})
                name, args = "parse", (broken, named_shared if rng.random() < 0.5 else None)
        if name is None:
            continue
        # ---- oracle: fresh-interpreter observation of the same call with the pre-call arguments
        try:
            blob = pickle.dumps((name, args), protocol=4)
        except Exception:
            continue
        before = [fingerprint(a) for a in args]
        fresh = zy.call(blob)
        if fresh[0] == "exc" and str(fresh[1]).startswith("harness:"):
            raise RuntimeError("zygote failure: %s" % (fresh[1],))
        here = observe(fa, name, args)
        after = [fingerprint(a) for a in args]
        sh.count("fresh_comparisons")
        sh.count("op_" + name)
        trace.append((name, kind))
        info = {"step": step, "call": name, "kind": kind, "trace": list(trace), "args": _small(args), "schemas": {k: v[0] for k, v in schemas.items()}}
        if ("exc", "Hang") in (here, fresh) and here != fresh:
            # one side ran into the per-call watchdog (seconds-long generation on a recursive type, loaded
            # machine): a wall-clock effect, not an observation of the library
            sh.count("watchdog_on_one_side_inconclusive")
            continue
        if not same_obs(here, fresh):
            sh.violation("result-depends-on-history",
                         "call %d (%s/%s) after %s returned %s; the same call first in a fresh interpreter returns %s"
                         % (step, name, kind, [t[0] for t in trace[:-1]][-6:], printable(here, 160), printable(fresh, 160))
                         + "; first difference at " + first_diff(strip(here), strip(fresh)), info)
            return
        if name == "tee_block":
            # the Block objects handed to write_block are inputs: using one twice (two writers, or
            # looking at its records before / after) gives the same records every time
            ok = here[0] == "ok" and RC.same(here[1][0][0], here[1][0][1]) and len(here[1][0][0]) == 3 \
                and RC.same([r for blk in here[1][1] for r in blk], here[1][0][0])
            sh.count("block_reuse_checked")
            if not ok:
                sh.violation("argument-modified", "a Block used twice (two write_block calls, its records looked at before or after) did not give the same records twice: %s" % printable(here, 300), info)
                return
        if failed_before:
            sh.count("failed_call_then_dependent_call")
        if here[0] == "exc":
            failed_before = True
        # ---- arguments intact (only the named-schema dictionary of parse may grow)
        for i, (b, a) in enumerate(zip(before, after)):
            if name == "parse" and i == 1:
                continue
            sh.count("argument_snapshots")
            if b != a:
                sh.violation("argument-modified", "call %d (%s/%s) modified its argument #%d" % (step, name, kind, i), info)
                return
        if name == "parse" and here[0] == "ok" and kind != "parse_unknown_ref":
            # keep the parsed object for reuse by later calls
            try:
                objs["parsed_" + which] = fa.parse_schema(copy.deepcopy(js))
            except Exception:
                pass
    sh.count("histories")
    sh.case(h64(tuple(t[0] for t in trace), shared_used, collided), shared_used or collided)


def _small(args):
    out = []
    for a in args:
        r = repr(strip(a))
        out.append(r if len(r) < 1500 else r[:1500] + "...")
    return out


def run_shard(spec):
    import fastavro as fa

    zy = Zygote(fa)  # forked before any fastavro call is made in this process
    sh = Shard(PID, spec)
    rng = rng_for("C17", spec["seed"], spec["shard"])
    scratch = os.path.join(os.environ["VF_SCRATCH"], "c17-%d" % spec["shard"])
    os.makedirs(scratch, exist_ok=True)
    from ..mon import state as MS
    import fastavro.utils, fastavro.json_read, fastavro.json_write  # noqa: everything the histories use, before the snapshot

    state0 = MS.snapshot()
    sh.counters["module_state_objects_watched"] = len(state0)
    try:
        if "replay" in spec:
            # histories are regenerated from the seed recorded in the replay file
            r = rng_for("C17", spec["replay"].get("seed", 0), spec["shard"])
            for i in range(spec["n"]):
                sh.run_case(run_history, sh, fa, zy, r, scratch, i)
                if sh.violations:
                    break
            return sh.result()
        i = 0
        while i < spec["n"] and not sh.out_of_time():
            i += 1
            sh.run_case(run_history, sh, fa, zy, rng, scratch, i)
            if i % 10 == 1 and len(sh.samples) < 4:
                sh.sample({"history_no": i, "ops_so_far": {k: v for k, v in sh.counters.items() if k.startswith("op_")}})
    finally:
        zy.close()
    # evidence only: which module-level objects / mutable defaults differ after all histories
    moved = MS.changed(state0, MS.snapshot())
    sh.counters["module_state_objects_changed"] = len(moved)
    if moved and len(sh.samples) < 6:
        sh.samples.append({"module_state_changed_after_histories": moved[:12]})
    return sh.result()

"""C19 — load_schema from per-type files is equivalent to parsing the same
types inlined at their first use; load_schema_ordered; missing files."""
import copy
import datetime as dt
import decimal
import io
import json
import os
import shutil
import uuid

from ..harness import Shard, rng_for, h64, printable, guard, exc_name
from ..gen.datum import DatumGen
from ..ref import schema as RS, binary as RB, conform as RC, pcf as RP
from ..ref.schema import PRIMS

PID = "C19"
LEVEL = "exploration"
RULE = (
    "repositories = random acyclic dependency graphs of 2-9 named types (records, enums, fixed) "
    "over 1-3 namespaces, one <full name>.avsc per type, referring to each other from fields, "
    "array items, map values and union branches (also twice in one union: directly and as a collection), "
    "namespaces carried by a namespace attribute or by a dotted name alone, with diamonds and repeated use at several depths, "
    "references spelled qualified or namespace-relative. Oracle: canonical form of "
    "load_schema(root) == independent canonical form of the model schema with every type inlined "
    "at its first use; schemaless_writer bytes under the loaded schema == bytes under the inlined "
    "schema == independent encoder, for generated data; the same for load_schema_ordered with two "
    "dependencies-first orders; with any one file removed (non-root and root) an exception whose "
    "text or .name contains the missing full name. distinct = hash(graph shape: edges labelled by "
    "site kind and spelling, removed file); non-trivial = >=2 files."
)
ASSUMPTIONS = [
    "no reference from a namespace to a null-namespace type (not spellable, A21)",
    "'error naming the missing type' = some Exception whose str() or .name contains the full name (A30)",
]
N = {"quick": 32000, "thorough": 800000}
TIME_LIMIT = {"quick": 40, "thorough": 560}
SHARDS = 16
REACH = {
    "quick": {"repositories": 1000, "diamonds": 100, "type_used_3_times": 100, "relative_refs_cross_file": 100,
              "site_field": 100, "site_array": 100, "site_map": 100, "site_union": 100, "missing_file_cases": 2000,
              "ordered_loads": 1500, "bytes_compared": 2000,
              "dotted_name_definitions": 300, "same_type_twice_in_union": 300,
              "same_simple_name_in_two_namespaces": 300, "loaded_by_name_through_repo": 1000, "loaded_by_name_namespaced_root": 300, "logical_values_encoded": 300},
    "thorough": {"repositories": 30000},
}
NAMESPACES = ["", "org.a", "org.a.b", "zz"]


def plan(tier, seed):
    n = N[tier]
    return [{"shard": i, "n": n // SHARDS, "seed": seed, "tier": tier, "time_limit": TIME_LIMIT[tier]}
            for i in range(SHARDS)]


def gen_repo(rng):
    """Returns (types: fullname -> json, root fullname, edges [(src, dst, site, spelling)])."""
    n = rng.randint(2, 9)
    nss = rng.sample(NAMESPACES, rng.randint(1, 3))
    if "" in nss and len(nss) > 1 and rng.random() < 0.5:
        nss.remove("")
    names = []
    for i in range(n):
        ns = rng.choice(nss)
        short = rng.choice(["T", "Node", "Item", "Kind", "Box", "Leaf"]) + str(i)
        if rng.random() < 0.35:
            # names that end like the file extension does (letters of "avsc"), or are made of them
            short = rng.choice(["Orders", "Address", "Status", "Data", "Avsc", "Casa", "Vacs", "Savvas", "C", "Deltas"]) + (str(i) if rng.random() < 0.3 else "")
            if ((ns + "." + short) if ns else short) in names:
                short += "x%d" % i
        if names and rng.random() < 0.3:
            # the simple name of an earlier type, in another namespace (two types that differ only there)
            other = rng.choice(names)
            cand = other.rpartition(".")[2]
            if ((ns + "." + cand) if ns else cand) not in names:
                short = cand
        names.append((ns + "." + short) if ns else short)
    kinds = {}
    for i, full in enumerate(names):
        kinds[full] = "record" if i == 0 else rng.choice(["record", "record", "enum", "fixed"])
    types = {}
    edges = []
    # type i may only refer to types with a larger index (acyclic)
    for i, full in enumerate(names):
        ns, _, short = full.rpartition(".")
        k = kinds[full]
        js = {"type": k, "name": short}
        if ns and rng.random() < 0.25:
            js["name"] = full  # the namespace is carried by the dotted name alone
        elif ns or rng.random() < 0.3:
            js["namespace"] = ns
        if k == "enum":
            js["symbols"] = ["A", "B", "C"][: rng.randint(1, 3)]
        elif k == "fixed":
            js["size"] = rng.randint(0, 6)
        else:
            fields = []
            later = [t for t in names[i + 1:] if not ("." not in t and ns != "")]
            nf = rng.randint(1, 5) if later else rng.randint(0, 3)
            for j in range(nf):
                f = {"name": "f%d" % j}
                if later and rng.random() < 0.7:
                    dst = rng.choice(later)
                    dns, _, dshort = dst.rpartition(".")
                    if dns == ns and rng.random() < 0.5:
                        spelled, sp = dshort, "relative"
                    else:
                        spelled, sp = dst, "qualified"
                    site = rng.choice(["field", "array", "map", "union", "union_first", "nested", "union_twice"])
                    if site == "field":
                        f["type"] = spelled
                    elif site == "array":
                        f["type"] = {"type": "array", "items": spelled}
                    elif site == "map":
                        f["type"] = {"type": "map", "values": spelled}
                    elif site == "union":
                        f["type"] = ["null", spelled]
                    elif site == "union_twice":
                        # the same type in two branches of one union: a direct reference and a collection of it
                        other = dst if rng.random() < 0.5 or dns != ns else dshort
                        coll = {"type": "array", "items": other} if rng.random() < 0.5 else {"type": "map", "values": other}
                        f["type"] = rng.choice([["null", spelled, coll], [coll, spelled], [spelled, coll, "string"]])
                        site = "union"
                    elif site == "union_first":
                        f["type"] = [spelled, "string"]
                        site = "union"
                    else:
                        f["type"] = {"type": "array", "items": {"type": "map", "values": ["null", spelled]}}
                        site = "union"
                    edges.append((full, dst, site, sp))
                else:
                    f["type"] = rng.choice(["int", "string", "boolean", {"type": "array", "items": "long"}, ["null", "double"],
                                            {"type": "string"}, {"type": "map", "values": {"type": "bytes"}}, ["null", {"type": "long"}],
                                            # annotated primitives: what they carry besides the type name matters to the encoding of logical values
                                            {"type": "long", "logicalType": "timestamp-millis"}, {"type": "int", "logicalType": "date"},
                                            {"type": "bytes", "logicalType": "decimal", "precision": 6, "scale": 2},
                                            {"type": "string", "logicalType": "uuid"}, ["null", {"type": "long", "logicalType": "time-micros"}],
                                            {"type": "array", "items": {"type": "long", "logicalType": "timestamp-micros"}}])
                fields.append(f)
            js["fields"] = fields
        types[full] = js
    # keep only what is reachable from the root
    root = names[0]
    reach, stack = set(), [root]
    while stack:
        t = stack.pop()
        if t in reach:
            continue
        reach.add(t)
        stack.extend(d for s, d, _si, _sp in edges if s == t)
    types = {k: v for k, v in types.items() if k in reach}
    edges = [e for e in edges if e[0] in reach]
    return types, root, edges


def inline_first_use(types, root):
    """Model: every type defined at its first use in document order."""
    emitted = set()

    def walk(n, ns):
        if isinstance(n, str):
            if n in PRIMS:
                return n
            full = n if "." in n else (ns + "." + n if ns else n)
            if full in emitted or full not in types:
                return full
            return define(full)
        if isinstance(n, list):
            return [walk(b, ns) for b in n]
        t = n.get("type")
        if t == "array":
            return dict(n, items=walk(n["items"], ns))
        if t == "map":
            return dict(n, values=walk(n["values"], ns))
        return n

    def define(full):
        emitted.add(full)
        d = copy.deepcopy(types[full])
        ns, _, short = full.rpartition(".")
        d["name"] = short
        d["namespace"] = ns
        if d["type"] == "record":
            d["fields"] = [dict(f, type=walk(f["type"], ns)) for f in d.get("fields", [])]
        return d

    return define(root)


def topo_orders(types, root, edges, rng):
    deps = {t: set() for t in types}
    for s, d, _si, _sp in edges:
        deps[s].add(d)
    orders = []
    for _ in range(2):
        done, order = set(), []
        pending = list(types)
        rng.shuffle(pending)
        while pending:
            for t in list(pending):
                if t == root and len(pending) > 1:
                    continue
                if deps[t] <= done:
                    order.append(t)
                    done.add(t)
                    pending.remove(t)
                    break
            else:
                break
        if len(order) == len(types) and order[-1] == root:
            orders.append(order)
    return orders


def _leaves(x):
    if isinstance(x, dict):
        for v in x.values():
            yield from _leaves(v)
    elif isinstance(x, (list, tuple)):
        for v in x:
            yield from _leaves(v)
    else:
        yield x


def wb(fa, schema, d):
    out = io.BytesIO()
    fa.schemaless_writer(out, schema, d)
    return out.getvalue()


def targeted_repos():
    """Shapes the random generator reaches rarely."""
    E = lambda name, ns, syms: {"type": "enum", "name": name, "namespace": ns, "symbols": syms}
    out = []
    # the same simple name in the null namespace and in a namespace; the null one is met first, the
    # namespaced one is only ever referred to by its relative spelling
    types = {
        "Top": {"type": "record", "name": "Top", "fields": [{"name": "tag", "type": "Kind"}, {"name": "body", "type": "acme.Body"}]},
        "Kind": E("Kind", "", ["A", "B"]),
        "acme.Body": {"type": "record", "name": "Body", "namespace": "acme", "fields": [{"name": "kind", "type": "Kind"}, {"name": "again", "type": {"type": "array", "items": "Kind"}}]},
        "acme.Kind": E("Kind", "acme", ["X", "Y", "Z"]),
    }
    out.append((types, "Top", [("Top", "Kind", "field", "relative"), ("Top", "acme.Body", "field", "qualified"),
                               ("acme.Body", "acme.Kind", "field", "relative"), ("acme.Body", "acme.Kind", "array", "relative")]))
    types = {
        "Top": {"type": "record", "name": "Top", "fields": [{"name": "first", "type": ["null", "Item"]}, {"name": "m", "type": {"type": "map", "values": "x.y.Holder"}}]},
        "Item": {"type": "fixed", "name": "Item", "size": 2},
        "x.y.Holder": {"type": "record", "name": "x.y.Holder", "fields": [{"name": "i", "type": ["null", "Item"]}, {"name": "deep", "type": {"type": "array", "items": {"type": "map", "values": "Item"}}}]},
        "x.y.Item": {"type": "fixed", "name": "Item", "namespace": "x.y", "size": 5},
    }
    out.append((types, "Top", [("Top", "Item", "union", "relative"), ("Top", "x.y.Holder", "map", "qualified"),
                               ("x.y.Holder", "x.y.Item", "union", "relative"), ("x.y.Holder", "x.y.Item", "union", "relative")]))
    return out


def one_repo(sh, fa, rng, scratch, idx, given=None):
    from fastavro.schema import load_schema, load_schema_ordered, to_parsing_canonical_form

    types, root, edges = given if given is not None else gen_repo(rng)
    if len(types) < 2:
        return
    d = os.path.join(scratch, "repo-%d" % idx)
    os.makedirs(d, exist_ok=True)
    try:
        for full, js in types.items():
            with open(os.path.join(d, full + ".avsc"), "w") as f:
                json.dump(js, f)
        model = inline_first_use(types, root)
        node, env = RS.build(model)
        want_pcf = RP.pcf(model)
        info = {"types": types, "root": root}
        sig = tuple(sorted((e[2], e[3]) for e in edges))
        sh.case(h64(len(types), sig), True)
        sh.count("repositories")
        indeg = {}
        for s, dd, si, sp in edges:
            indeg[dd] = indeg.get(dd, 0) + 1
            sh.count("site_" + si)
            if sp == "relative":
                sh.count("relative_refs_cross_file")
        if any(len({s for s, dd, _si, _sp in edges if dd == t}) >= 2 for t in types):
            sh.count("diamonds")
        if any(v >= 3 for v in indeg.values()):
            sh.count("type_used_3_times")
        if any("." in js["name"] for js in types.values()):
            sh.count("dotted_name_definitions")
        shorts = [t.rpartition(".")[2] for t in types]
        if len(set(shorts)) < len(shorts):
            sh.count("same_simple_name_in_two_namespaces")
        if any(isinstance(f["type"], list) and sum(1 for b in f["type"] if b not in ("null", "string")) >= 2
               for js in types.values() for f in js.get("fields", [])):
            sh.count("same_type_twice_in_union")
        root_path = os.path.join(d, root + ".avsc")
        st, loaded = guard(load_schema, root_path)
        if st == "exc":
            sh.violation("load-raised", "load_schema raised %s on a complete repository" % exc_name(loaded), info)
            return
        st, got = guard(to_parsing_canonical_form, loaded)
        if st == "exc" or got != want_pcf:
            sh.violation("loaded-schema-differs", "canonical form %s, inlined model %s" % (exc_name(got) if st == "exc" else got[:400], want_pcf[:400]), info)
            return
        data = []
        for _ in range(3):
            x = DatumGen(rng, size_budget=40, big=0.0, mappings=0.0).gen(node)
            if not RC.float_out_of_range(node, x):
                data.append(x)
        for x in data:
            st, b1 = guard(wb, fa, loaded, x)
            st2, b2 = guard(wb, fa, copy.deepcopy(model), x)
            try:
                # bytes at an array position: both readings of "non-string sequence" (A17) are accepted
                b3s = [RB.encode(node, RC.from_datum(node, x, True, loose)) for loose in (False, True)]
            except Exception:
                b3s = None
            def agrees(b):
                from .c09 import canon_decimals  # a decimal's bytes need not be of minimal length
                return b1 == b or RC.same(canon_decimals(node, RB.strip_spans(RB.decode_all(node, b1))), canon_decimals(node, RB.strip_spans(RB.decode_all(node, b))))
            if st == "exc" or st2 == "exc" or b1 != b2 or (b3s is not None and not any(agrees(b) for b in b3s)):
                sh.violation("encoding-differs", "loaded: %s, inlined: %s" % (exc_name(b1) if st == "exc" else b1[:40].hex(), exc_name(b2) if st2 == "exc" else b2[:40].hex()),
                             dict(info, datum=x))
                return
            sh.count("bytes_compared")
            if any(isinstance(v, (dt.date, dt.time, decimal.Decimal, uuid.UUID)) for v in _leaves(x)):
                sh.count("logical_values_encoded")
        # the same repository addressed by full name through an explicitly passed repository object
        from fastavro.repository import FlatDictRepository
        st, by_name = guard(load_schema, root, repo=FlatDictRepository(d))
        if st == "exc":
            sh.violation("load-raised", "load_schema(%r, repo=FlatDictRepository(dir)) raised %s on a complete repository" % (root, exc_name(by_name)), dict(info, by_name=True))
            return
        st, got = guard(to_parsing_canonical_form, by_name)
        if st == "exc" or got != want_pcf:
            sh.violation("loaded-schema-differs", "loaded by name through repo=: %s, inlined model %s" % (exc_name(got) if st == "exc" else got[:300], want_pcf[:300]), dict(info, by_name=True))
            return
        for x in data[:1]:
            st, b1 = guard(wb, fa, by_name, x)
            st2, b2 = guard(wb, fa, copy.deepcopy(model), x)
            if st == "exc" or st2 == "exc" or b1 != b2:
                sh.violation("encoding-differs", "loaded by name through repo=: %s, inlined: %s" % (exc_name(b1) if st == "exc" else b1[:40].hex(), exc_name(b2) if st2 == "exc" else b2[:40].hex()), dict(info, datum=x, by_name=True))
                return
        sh.count("loaded_by_name_through_repo")
        # the repository addressed as the current directory: bare file names, "./name"
        cwd = os.getcwd()
        try:
            os.chdir(d)
            for spelling in (root + ".avsc", os.path.join(".", root + ".avsc")):
                st, rel = guard(load_schema, spelling)
                if st == "ok":
                    st, rel = guard(to_parsing_canonical_form, rel)
                if st == "exc" or rel != want_pcf:
                    sh.violation("load-raised" if st == "exc" else "loaded-schema-differs",
                                 "load_schema(%r) with the repository as current directory: %s" % (spelling, exc_name(rel) if st == "exc" else rel[:300]), dict(info, spelling=spelling))
                    return
            order = topo_orders(types, root, edges, rng)[0]
            st, rel = guard(load_schema_ordered, [t + ".avsc" for t in order])
            if st == "ok":
                st, rel = guard(to_parsing_canonical_form, rel)
            if st == "exc" or rel != want_pcf:
                sh.violation("load-ordered-raised" if st == "exc" else "ordered-schema-differs",
                             "load_schema_ordered with bare file names in the current directory: %s" % (exc_name(rel) if st == "exc" else rel[:300]), dict(info, order=order, bare=True))
                return
            sh.count("loaded_from_current_directory")
        finally:
            os.chdir(cwd)
        if "." in root:
            sh.count("loaded_by_name_namespaced_root")
        for order in topo_orders(types, root, edges, rng):
            paths = [os.path.join(d, t + ".avsc") for t in order]
            st, lo = guard(load_schema_ordered, paths)
            if st == "exc":
                sh.violation("load-ordered-raised", "load_schema_ordered raised %s (order %s)" % (exc_name(lo), order), dict(info, order=order))
                return
            st, got = guard(to_parsing_canonical_form, lo)
            if st == "exc" or got != want_pcf:
                sh.violation("ordered-schema-differs", "order %s: %s vs %s" % (order, exc_name(got) if st == "exc" else got[:300], want_pcf[:300]), dict(info, order=order))
                return
            for x in data[:1]:
                st, b1 = guard(wb, fa, lo, x)
                st2, b2 = guard(wb, fa, copy.deepcopy(model), x)
                if st == "exc" or st2 == "exc" or b1 != b2:
                    sh.violation("ordered-encoding-differs", "order %s" % order, dict(info, order=order, datum=x))
                    return
            sh.count("ordered_loads")
        # any one file missing
        for missing in types:
            os.rename(os.path.join(d, missing + ".avsc"), os.path.join(d, missing + ".gone"))
            st, res = guard(load_schema, root_path)
            os.rename(os.path.join(d, missing + ".gone"), os.path.join(d, missing + ".avsc"))
            sh.case(h64(len(types), sig, "missing", missing == root), True)
            sh.count("missing_file_cases")
            if st == "ok":
                sh.violation("missing-file-not-reported", "load_schema succeeded although %s.avsc is missing" % missing, dict(info, missing=missing))
                return
            text = str(res) + " " + str(getattr(res, "name", ""))
            if missing not in text:
                sh.violation("missing-type-not-named", "with %s.avsc missing the error is %s" % (missing, exc_name(res)), dict(info, missing=missing))
                return
    finally:
        shutil.rmtree(d, ignore_errors=True)


def run_shard(spec):
    import fastavro as fa

    sh = Shard(PID, spec)
    rng = rng_for("C19", spec["seed"], spec["shard"])
    scratch = os.path.join(os.environ["VF_SCRATCH"], "c19-%d" % spec["shard"])
    os.makedirs(scratch, exist_ok=True)
    if "replay" in spec:
        import base64, pickle
        from fastavro.schema import load_schema, to_parsing_canonical_form

        info = pickle.loads(base64.b64decode(spec["replay"]["pickle"]))
        d = os.path.join(scratch, "replay")
        os.makedirs(d, exist_ok=True)
        for full, js in info["types"].items():
            if full != info.get("missing"):
                json.dump(js, open(os.path.join(d, full + ".avsc"), "w"))
        sh.case(None)
        st, loaded = guard(load_schema, os.path.join(d, info["root"] + ".avsc"))
        model = inline_first_use(info["types"], info["root"])
        if "missing" in info:
            if st == "ok" or info["missing"] not in (str(loaded) + str(getattr(loaded, "name", ""))):
                sh.violation("missing-type-not-named", "replayed", info)
        elif st == "exc" or to_parsing_canonical_form(loaded) != RP.pcf(model):
            sh.violation("loaded-schema-differs", "replayed", info)
        return sh.result()
    if spec["shard"] == 0:
        for k, given in enumerate(targeted_repos()):
            sh.run_case(one_repo, sh, fa, rng, scratch, 10**6 + k, given)
            sh.count("targeted_repositories")
    i = 0
    while i < spec["n"] and not sh.out_of_time():
        i += 1
        sh.run_case(one_repo, sh, fa, rng, scratch, i)
        if i % 100 == 1:
            t, r, e = gen_repo(rng_for("sample", spec["shard"], i))
            sh.sample({"root": r, "files": {k + ".avsc": v for k, v in list(t.items())[:4]}})
    return sh.result()

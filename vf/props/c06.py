"""C06 — truncated or sync-corrupted container files never yield records
that were not written; every schemaless prefix raises."""
import copy
import io
import os

from ..harness import Shard, rng_for, h64, schema_shape, printable, guard, exc_name
from ..gen.cases import gen_case
from ..ref import schema as RS, binary as RB, conform as RC, container as RK
from .c05 import gen_records, random_partition

PID = "C06"
LEVEL = "fault_enumeration"
RULE = (
    "corpus = container files (all four codecs; 0-12 blocks; blocks with >=64 records so the "
    "count varint has two bytes; zero-byte records; empty blocks; written by fastavro.writer "
    "and by the independent writer) — sampled; faults per file — enumerated completely: the "
    "file cut at EVERY byte offset 0..len-1 and read with reader (every 3rd cut also with "
    "block_reader), and for every block its trailing sync marker altered 18 ways (each byte "
    "flipped, all bytes inverted, replaced by 16 other block-looking bytes); plus every proper "
    "prefix of the schemaless encoding of the file's first record. Oracle: what was yielded "
    "before the iterator stopped or raised is a structural prefix of the written records; "
    "normal end <=> cut on a block boundary reported by the independent parser (header end "
    "counts), and then exactly the complete blocks' records were yielded; sync alteration => "
    "exception, nothing from a later block. distinct = (file hash, cut offset | block, "
    "alteration); non-trivial = every fault; files counted separately."
)
ASSUMPTIONS = [
    "a file cut on a block boundary is a layout-valid file, so ending normally there is required (A7)",
    "records of the block whose marker is altered may be yielded before the error (A8)",
    "any Exception counts as 'raises'",
]
N = {"quick": 480, "thorough": 9600}
TIME_LIMIT = {"quick": 40, "thorough": 640}
SHARDS = 16
CODECS = ["null", "deflate", "bzip2", "xz"]
REACH = {
    "quick": {"cuts": 20000, "cut_in_magic": 100, "cut_in_header_map": 100, "cut_in_header_sync": 100,
              "cut_in_block_count": 20, "cut_in_block_count_2byte": 20, "cut_in_block_size": 100,
              "cut_in_payload": 100, "cut_in_sync": 100, "cut_on_boundary": 100,
              "sync_alterations": 500, "schemaless_prefixes": 500, "files": 40,
              "cuts_big_values": 2000, "schemaless_prefixes_big_values": 1000},
    "thorough": {"cuts": 1000000, "files": 1000},
}


def plan(tier, seed):
    n = N[tier]
    return [{"shard": i, "n": max(1, n // SHARDS), "seed": seed, "boundary": True, "tier": tier,
             "time_limit": TIME_LIMIT[tier]} for i in range(SHARDS)]


def coverage_extra(tier, counters):
    return {"exhaustive_over_cut_offsets_of_each_file": True,
            "exhaustive_over_sync_alterations_listed": True,
            "exhaustive": False,
            "note": "the corpus of files is sampled; the fault space of each file is enumerated completely"}


def build_file(fa, rng, case, recs, how, intervals=None):
    """Returns (data, boundaries, expected python records, counts per block)."""
    js, node = case["schema"], case["node"]
    codec = rng.choice(CODECS)
    trees = [RC.from_datum(node, d) for d in recs]
    expected = [RB.to_py(node, t) for t in trees]
    if how == "ref":
        enc = [RB.encode(node, t) for t in trees]
        partition = random_partition(rng, len(recs))
        if len(recs) >= 128:
            k = rng.randint(64, len(recs) - 64)
            partition = [k, 0, len(recs) - k]
        data, bounds = RK.write(js, enc, partition, codec=codec,
                                sync=bytes(rng.getrandbits(8) for _ in range(16)),
                                meta=rng.choice([{}, {"m": "1"}]), codec_key=True)
        return data, bounds, expected, partition, codec
    fo = io.BytesIO()
    lens = [len(RB.encode(node, t)) for t in trees]
    interval = rng.choice([1, max(lens or [1]), sum(lens) // 3 + 1, sum(lens) // 2 + 1, 10**6])
    if intervals:
        interval = rng.choice(intervals) or sum(lens) // 2 + 1
    fa.writer(fo, copy.deepcopy(js), list(recs), codec=codec, sync_interval=interval)
    data = fo.getvalue()
    cont = RK.parse(data)
    # expected records as the independent parser reads the complete file (the
    # writer may legitimately pick another conforming branch than the model,
    # e.g. bytes under an array branch, A17)
    expected = [RB.to_py(node, t) for t in RK.records(cont, node)]
    return data, cont.boundaries, expected, [b.count for b in cont.blocks], codec


def classify_cut(cut, data, bounds, header_map_end):
    if cut in bounds:
        return "on_boundary"
    if cut < 4:
        return "in_magic"
    if cut < header_map_end:
        return "in_header_map"
    if cut < bounds[0]:
        return "in_header_sync"
    # inside a block: find it
    for i in range(len(bounds) - 1):
        s, e = bounds[i], bounds[i + 1]
        if s < cut < e:
            _c, p1 = RB.dec_long(data, s)
            _z, p2 = RB.dec_long(data, p1)
            if cut < p1:
                return "in_block_count_2byte" if p1 - s >= 2 else "in_block_count"
            if cut == p1:
                return "after_block_count"
            if cut < p2:
                return "in_block_size"
            if cut < e - 16:
                return "in_payload"
            return "in_sync"
    return "other"


def read_until(fa, data, use_blocks=False):
    got = []
    try:
        if use_blocks:
            for b in fa.block_reader(io.BytesIO(data)):
                got.extend(list(b))
        else:
            for r in fa.reader(io.BytesIO(data)):
                got.append(r)
        return got, None
    except Exception as e:  # noqa: any exception is "raises"
        return got, e


def check_file(sh, fa, rng, case, recs, how, intervals=None):
    js, node = case["schema"], case["node"]
    st, built = guard(build_file, fa, rng, case, recs, how, intervals)
    if st == "exc":
        sh.count("corpus_build_failed")
        return
    data, bounds, expected, counts, codec = built
    fid = h64(data)
    header_map_end = bounds[0] - 16
    cum = [0]
    for c in counts:
        cum.append(cum[-1] + c)
    at_boundary = {b: cum[i] for i, b in enumerate(bounds)}
    info0 = {"schema": js, "records": recs, "how": how, "codec": codec, "file": data.hex() if len(data) < 1500 else None, "seed_file": fid}
    sh.count("files")
    sh.count("files_" + how)
    sh.count("files_codec_" + codec)
    if len(counts) >= 2:
        sh.count("files_multiblock")
    # ---- every cut offset
    for cut in range(len(data)):
        cls = classify_cut(cut, data, bounds, header_map_end)
        use_blocks = cut % 3 == 0
        got, err = read_until(fa, data[:cut], use_blocks)
        sh.case(h64(fid, cut), True)
        sh.count("cuts")
        sh.count("cut_" + cls)
        if cls == "in_block_count_2byte":
            sh.count("cut_in_block_count")
        info = dict(info0, cut=cut, cut_class=cls, api="block_reader" if use_blocks else "reader")
        if len(got) > len(expected) or not all(RC.same(a, b) for a, b in zip(got, expected)):
            sh.violation("yielded-unwritten-record", "cut at %d (%s): yielded %s which is not a prefix of the %d written records"
                         % (cut, cls, printable(got[-2:], 200), len(expected)), info)
            return
        if cut in at_boundary:
            if err is not None:
                sh.violation("boundary-cut-raised", "cut exactly on a block boundary (%d) raised %s" % (cut, exc_name(err)), info)
                return
            if len(got) != at_boundary[cut]:
                sh.violation("boundary-cut-wrong-count", "cut on boundary %d yielded %d records, complete blocks hold %d" % (cut, len(got), at_boundary[cut]), info)
                return
        elif err is None:
            sh.violation("off-boundary-cut-ended-normally", "cut at %d (%s, not a block boundary) ended normally after %d records" % (cut, cls, len(got)), info)
            return
    # ---- every sync alteration of every block
    for bi in range(len(bounds) - 1):
        end = bounds[bi + 1]
        orig = data[end - 16:end]
        alts = [orig[:k] + bytes([orig[k] ^ (1 << (k % 8))]) + orig[k + 1:] for k in range(16)]
        alts.append(bytes(b ^ 0xFF for b in orig))
        alts.append((RB.enc_long(3) + RB.enc_long(9) + b"\x02" * 14)[:16])
        for ai, alt in enumerate(alts):
            if alt == orig:
                continue
            mutated = data[:end - 16] + alt + data[end:]
            use_blocks = (ai + bi) % 4 == 0
            got, err = read_until(fa, mutated, use_blocks)
            sh.case(h64(fid, "sync", bi, ai), True)
            sh.count("sync_alterations")
            info = dict(info0, block=bi, alteration=ai, api="block_reader" if use_blocks else "reader")
            if err is None:
                sh.violation("sync-alteration-unreported", "block %d sync marker altered (way %d) but reading ended normally with %d records" % (bi, ai, len(got)), info)
                return
            if len(got) > cum[bi + 1] or not all(RC.same(a, b) for a, b in zip(got, expected)):
                sh.violation("sync-alteration-yielded-later-records", "block %d altered: yielded %d records, blocks up to it hold %d" % (bi, len(got), cum[bi + 1]), info)
                return
    # ---- schemaless prefixes of the first record
    if recs:
        enc = RB.encode(node, RC.from_datum(node, recs[0]))
        parsed = fa.parse_schema(copy.deepcopy(js))
        for cut in range(len(enc)):
            hue = (None, "replace", "ignore")[cut % 3]  # no handling of undecodable text excuses a short read
            st, got = guard(fa.schemaless_reader, io.BytesIO(enc[:cut]), parsed, **({"handle_unicode_errors": hue} if hue else {}))
            sh.count("schemaless_prefixes")
            if st == "ok":
                sh.violation("schemaless-prefix-accepted", "%d-byte prefix of a %d-byte encoding returned %s" % (cut, len(enc), printable(got, 200)),
                             {"schema": js, "datum": recs[0], "cut": cut})
                return
        # the same value as the trailing field of a record that a reader schema drops (skip path)
        wp = {"type": "record", "name": "VfWrap", "fields": [{"name": "keep", "type": "long"}, {"name": "post", "type": js}]}
        rp = {"type": "record", "name": "VfWrap", "fields": [{"name": "keep", "type": "long"}]}
        blob = b"\x04" + enc
        for cut in range(1, len(blob)):
            st, got = guard(fa.schemaless_reader, io.BytesIO(blob[:cut]), wp, rp)
            sh.count("schemaless_prefixes_skip_path")
            if st == "ok":
                sh.violation("schemaless-prefix-accepted", "skip path: %d-byte prefix of a %d-byte encoding returned %s" % (cut, len(blob), printable(got, 200)),
                             {"schema": js, "datum": recs[0], "cut": cut, "skip_path": True})
                return


def fixed_corpus(rng, shard):
    """Per-shard deterministic corpus members: blocks with >=64 records (two-byte
    count varint), payloads >=64 bytes (two-byte size varint), zero-byte records."""
    kind = shard % 8
    n = 130 + 17 * shard
    if kind == 0:
        return [({"type": "record", "name": "R", "fields": [{"name": "id", "type": "long"}, {"name": "s", "type": "string"}]},
                 [{"id": i, "s": "r%d" % i} for i in range(n)], "fa", [None, 600])]
    if kind == 1:
        return [("null", [None] * n, "ref", None), ("null", [None] * 70, "fa", [1])]
    if kind == 2:
        return [("int", list(range(n)), "ref", None), ("long", [], "fa", [1]), ("long", [], "ref", None)]
    if kind == 3:
        return [({"type": "record", "name": "E", "fields": []}, [{}] * n, "fa", [1]),
                ({"type": "record", "name": "E", "fields": []}, [{}] * 5, "ref", None)]
    if kind == 4:
        return [(["null", "string"], ["a", None, "b"] * (n // 3), "fa", [100]), ("boolean", [True, False] * 70, "ref", None)]
    if kind == 5:
        return [({"type": "enum", "name": "En", "symbols": ["A", "B"]}, ["A", "B"] * 80, "fa", [70])]
    if kind == 6:
        return [({"type": "fixed", "name": "Z", "size": 0}, [b""] * n, "ref", None), ("int", list(range(n)), "fa", [150])]
    return [({"type": "array", "items": "int"}, [[i] for i in range(n)], "ref", None)]


def big_value_file(sh, fa, rng, k):
    """Values longer than any internal read chunk (64 KiB): cuts inside them, in container
    blocks and in schemaless encodings (sampled offsets; the files are ~300 KB)."""
    js = {"type": "record", "name": "Big", "fields": [{"name": "id", "type": "long"}, {"name": "payload", "type": "bytes" if k % 2 else "string"}]}
    node, _e = RS.build(js)
    mk = (lambda i: bytes([i]) * (70000 + 1000 * i)) if k % 2 else (lambda i: chr(97 + i) * (70000 + 1000 * i))
    recs = [{"id": i, "payload": mk(i)} for i in range(3)]
    enc = [RB.encode(node, RC.from_datum(node, r)) for r in recs]
    partition = [[1, 1, 1], [3], [2, 1], [1, 2]][k % 4]
    data, bounds = RK.write(js, enc, partition, codec="null" if k < 8 else "deflate", sync=b"\x31" * 16)
    cum = [0]
    for c in partition:
        cum.append(cum[-1] + c)
    at_boundary = {b: cum[i] for i, b in enumerate(bounds)}
    info0 = {"schema": js, "records": None, "how": "big", "partition": partition}
    offs = set()
    for b in bounds:
        offs |= {b + d for d in range(-20, 21)}
    offs |= {rng.randrange(bounds[0], len(data)) for _ in range(150)}
    for cut in sorted(o for o in offs if 0 < o < len(data)):
        use_blocks = cut % 3 == 0
        got, err = read_until(fa, data[:cut], use_blocks)
        sh.count("cuts_big_values")
        info = dict(info0, cut=cut, api="block_reader" if use_blocks else "reader")
        if len(got) > len(recs) or not all(RC.same(a, b) for a, b in zip(got, recs)):
            sh.violation("yielded-unwritten-record", "cut at %d of a file with 70 KB values: yielded a record that was not written (%s)"
                         % (cut, printable(got[-1:], 120)), info)
            return
        if cut in at_boundary:
            if err is not None or len(got) != at_boundary[cut]:
                sh.violation("boundary-cut-wrong-count", "cut on boundary %d: %s, %d records" % (cut, exc_name(err) if err else "ended", len(got)), info)
                return
        elif err is None:
            sh.violation("off-boundary-cut-ended-normally", "cut at %d (not a block boundary) ended normally after %d records" % (cut, len(got)), info)
            return
    blob = enc[2]
    for cut in sorted({rng.randrange(1, len(blob)) for _ in range(120)} | {1, 2, 3, 4, 5, len(blob) - 1, 65536, 65537, 65540, 65541}):
        hue = (None, "replace", "ignore")[cut % 3]
        st, got = guard(fa.schemaless_reader, io.BytesIO(blob[:cut]), js, **({"handle_unicode_errors": hue} if hue else {}))
        sh.count("schemaless_prefixes_big_values")
        if st == "ok":
            sh.violation("schemaless-prefix-accepted", "%d-byte prefix of a %d-byte encoding (70 KB value) returned a value" % (cut, len(blob)),
                         dict(info0, cut=cut))
            return


def run_shard(spec):
    import fastavro as fa

    sh = Shard(PID, spec)
    rng = rng_for("C06", spec["seed"], spec["shard"])
    if "replay" in spec:
        import base64, pickle

        info = pickle.loads(base64.b64decode(spec["replay"]["pickle"]))
        node, env = RS.build(info["schema"])
        case = {"schema": info["schema"], "node": node}
        recs = info.get("records") or [info.get("datum")]
        for k in range(6):
            check_file(sh, fa, rng_for("replay", k), case, recs, info.get("how", "fa"))
        return sh.result()
    if spec.get("boundary"):
        for js, recs, how, intervals in fixed_corpus(rng, spec["shard"]):
            node, env = RS.build(js)
            sh.run_case(check_file, sh, fa, rng, {"schema": js, "node": node}, recs, how, intervals)
    sh.run_case(big_value_file, sh, fa, rng, spec["shard"])
    i = 0
    while i < spec["n"] and not sh.out_of_time():
        i += 1
        case = gen_case(rng, dict(bytes_defaults=0.0, max_nodes=12), dict(size_budget=25, big=0.0))
        recs = gen_records(rng, case, rng.choice([1, 2, 3, 5, 8, 12]))
        how = "ref" if i % 2 else "fa"
        sh.feat(case["features"])
        sh.run_case(check_file, sh, fa, rng, case, recs, how)
        if i % 2 == 1:
            sh.sample({"schema": case["schema"], "n_records": len(recs), "how": how})
    return sh.result()

"""C04 — container files are self-describing and round-trip under every
codec / sync interval / metadata / stream kind."""
import copy
import io
import os

from ..harness import Shard, rng_for, h64, schema_shape, datum_shape, printable, guard, exc_name
from ..gen.cases import gen_case
from ..gen.datum import DatumGen
from ..ref import schema as RS, binary as RB, conform as RC, container as RK, pcf as RP
from ..mon.streams import ReadOnlyStream, WriteOnlyStream

PID = "C04"
LEVEL = "exploration"
RULE = (
    "cases = (schema of any top-level kind, list of conforming records, codec in "
    "{null,deflate,bzip2,xz}, sync_interval in {0,1,L-1,L,L+1,sum,10^6} with L the encoded "
    "length of the first record, deflate level, metadata map, explicit sync marker or "
    "random, raw/parsed schema, output stream in {BytesIO, real file, write-only "
    "non-seekable monitor}, input stream in {BytesIO, real file, read-only monitor}); "
    "deterministic stratum: zero-byte records (null, field-less record, size-0 fixed), empty "
    "record list, every codec x stream kind. The file is read back with nothing but its "
    "bytes: records == normalised written records, canonical form of reader.writer_schema "
    "== canonical form of the schema (independent canonicaliser), codec and metadata "
    "reported, identical records for every sync_interval, and the stream monitors saw no "
    "attribute other than read / write, flush, seekable; every 4th case: two live readers "
    "(file A partly consumed, then a file B whose evolved schema defines the same type names "
    "with another layout is opened and read, then A is finished) each return their own file's "
    "records. distinct = hash(schema shape, "
    "#records class, codec, interval class, stream kinds); non-trivial = >=1 record or "
    "a non-default configuration."
)
ASSUMPTIONS = [
    "snappy/zstandard/lz4 are not importable in this image (recorded in evidence), so only null/deflate/bzip2/xz are exercised",
    "allowed attribute set on a non-seekable output: write, flush, seekable; on the input: read (A5)",
]
N = {"quick": 16000, "thorough": 320000}
TIME_LIMIT = {"quick": 40, "thorough": 560}
SHARDS = 16
CODECS = ["null", "deflate", "bzip2", "xz"]
REACH = {
    "quick": {"files_checked": 1500, "zero_byte_record_files": 30, "empty_files": 20,
              "interval_exact": 30, "non_record_top": 100, "writeonly_outputs": 200,
              "readonly_inputs": 200, "realfile_io": 100, "writer_class_flush_groupings": 300,
              "interleaved_reader_pairs": 150, "error_kind_schemas": 50, "block_copied_files": 300},
    "thorough": {"files_checked": 20000},
}


def plan(tier, seed):
    n = N[tier]
    return [{"shard": i, "n": n // SHARDS, "seed": seed, "boundary": i < 4, "tier": tier,
             "time_limit": TIME_LIMIT[tier]} for i in range(SHARDS)]


def coverage_extra(tier, counters):
    import importlib.util

    return {"optional_codecs_importable": {m: importlib.util.find_spec(m) is not None
                                           for m in ("cramjam", "snappy", "zstandard", "lz4")}}


def zero_byte_cases():
    out = []
    out.append(("null", [None] * 5))
    out.append(({"type": "record", "name": "Empty", "fields": []}, [{}] * 7))
    out.append(({"type": "fixed", "name": "Z", "size": 0}, [b""] * 3))
    out.append(({"type": "record", "name": "N", "fields": [{"name": "a", "type": "null"}, {"name": "z", "type": {"type": "fixed", "name": "Z0", "size": 0}}]},
                [{"a": None, "z": b""}] * 4))
    out.append(("long", []))
    out.append(({"type": "record", "name": "R", "fields": [{"name": "x", "type": "int"}]}, []))
    out.append((["null", "string"], [None, "a", None]))
    out.append(({"type": "array", "items": "int"}, [[], [1], []]))
    out.append(({"type": "map", "values": "null"}, [{}, {"k": None}]))
    out.append(({"type": "enum", "name": "E", "symbols": ["A", "B"]}, ["A", "B", "A"]))
    out.append(("string", ["x" * 10, "y" * 10, "z" * 10, "w" * 10]))
    return out


def open_output(kind, scratch, tag):
    if kind == "bytesio":
        return io.BytesIO(), None
    if kind == "file":
        path = os.path.join(scratch, "c04-%s.avro" % tag)
        return open(path, "wb"), path
    return WriteOnlyStream(), None


def run_config(sh, fa, case, cfg, scratch, tag):
    """Write one file under cfg and read it back; returns list of records read or None."""
    js, node = case["schema"], case["node"]
    recs = case["records"]
    info = {"schema": js, "records": recs, "cfg": cfg}
    schema_arg = copy.deepcopy(js)
    if cfg["parsed"]:
        st, schema_arg = guard(fa.parse_schema, schema_arg)
        if st == "exc":
            sh.violation("parse-rejected-valid-schema", exc_name(schema_arg), info)
            return None
    fo, path = open_output(cfg["out"], scratch, tag)
    meta = dict(cfg["meta"]) if cfg["meta"] is not None else None
    kw = dict(codec=cfg["codec"], sync_interval=cfg["interval"], metadata=meta)
    if cfg.get("validator"):
        kw["validator"] = True  # conforming records: validating them first changes nothing
    if cfg["marker"]:
        kw["sync_marker"] = cfg["marker"]
    if cfg["level"] is not None:
        kw["codec_compression_level"] = cfg["level"]
    if cfg.get("flushes") is not None:
        # the Writer class with explicit flush groupings (another way of grouping records into blocks)
        def write_grouped():
            from fastavro.write import Writer
            wkw = dict(codec=kw["codec"], sync_interval=kw["sync_interval"], metadata=kw["metadata"])
            if kw.get("validator"):
                wkw["validator"] = True
            if "sync_marker" in kw:
                wkw["sync_marker"] = kw["sync_marker"]
            if "codec_compression_level" in kw:
                wkw["compression_level"] = kw["codec_compression_level"]
            w = Writer(fo, schema_arg, **wkw)
            for i, r in enumerate(recs):
                w.write(r)
                if i in cfg["flushes"]:
                    w.flush()
                    if i % 2:
                        w.flush()
            w.flush()
        st, err = guard(write_grouped)
        sh.count("writer_class_flush_groupings")
    elif cfg.get("block_copy"):
        # a third way of producing the file: copying the blocks of a donor file, some of them
        # looked at (partly or wholly iterated) before they are copied
        def copy_blocks():
            from fastavro.write import Writer
            # the first records go through write() and are still pending when the copied blocks arrive
            k0 = min(len(recs), len(cfg["block_copy"]) % 3)
            donor = io.BytesIO()
            fa.writer(donor, copy.deepcopy(js), list(recs[k0:]), codec=cfg["block_copy"], sync_interval=cfg["interval"])
            donor.seek(0)
            wkw = dict(codec=kw["codec"], sync_interval=max(kw["sync_interval"], 10**6) if k0 else kw["sync_interval"], metadata=kw["metadata"])
            if "sync_marker" in kw:
                wkw["sync_marker"] = kw["sync_marker"]
            w = Writer(fo, schema_arg, **wkw)
            for r in recs[:k0]:
                w.write(r)
            for k, block in enumerate(fa.block_reader(donor)):
                if k % 2 == 0:
                    it = iter(block)
                    next(it, None)
                    if k % 4 == 0:
                        list(it)
                w.write_block(block)
            w.flush()
        st, err = guard(copy_blocks)
        sh.count("block_copied_files")
    else:
        # records may be any iterable: a list, or a one-shot generator
        recs_arg = list(recs) if cfg["interval"] % 2 else (r for r in list(recs))
        st, err = guard(fa.writer, fo, schema_arg, recs_arg, **kw)
    if path:
        # a buffered real file, looked at through a second handle before it is closed: once the
        # writer has returned, everything it wrote has been flushed
        if st != "exc":
            with open(path, "rb") as f2:
                seen_before_close = f2.read()
        fo.close()
        if st != "exc":
            with open(path, "rb") as f2:
                final = f2.read()
            sh.count("realfile_second_handle_reads")
            if seen_before_close != final:
                sh.violation("output-not-flushed", "a second handle on the output file saw %d of %d bytes after the writer had returned (before close)" % (len(seen_before_close), len(final)), info)
                return None
    if st == "exc":
        if cfg["out"] == "writeonly" and fo.foreign:
            sh.violation("output-needs-more-than-write-flush", "writer touched %r on a non-seekable output and failed: %s" % (fo.foreign, exc_name(err)), info)
        else:
            sh.violation("writer-raised", "writer raised %s" % exc_name(err), info)
        return None
    if cfg["out"] == "writeonly":
        sh.count("writeonly_outputs")
        sh.count("output_calls_logged", len(fo.log))
        if fo.foreign:
            sh.violation("output-needs-more-than-write-flush", "writer touched %r on a non-seekable output" % (fo.foreign,), info)
            return None
        # on a pipe or socket behind a buffer the file only exists once it has been flushed
        events = [e[0] for e in fo.log if e[0] in ("write", "flush")]
        if "write" in events and events[-1] != "flush":
            sh.violation("output-not-flushed", "the writer returned with %d write call(s) after its last flush of the output" % (len(events) - 1 - max([i for i, e in enumerate(events) if e == "flush"], default=-1)), info)
            return None
        sh.count("writeonly_outputs_flushed_last")
        data = fo.getvalue()
    elif path:
        sh.count("realfile_io")
        with open(path, "rb") as f:
            data = f.read()
    else:
        data = fo.getvalue()
    # expected records under the branches the bytes select (independent parser)
    try:
        cont = RK.parse(data)
        trees = RK.records(cont, node)
        if len(trees) != len(recs):
            raise RK.ContainerError("count")
        expected = [RC.normalise(node, d, t) for d, t in zip(recs, trees)]
        sh.count("ref_parsed")
    except RK.ContainerError:
        sh.count("ref_parse_failed_fallback")
        expected = [RC.normalise(node, d, RC.from_datum(node, d)) for d in recs]
    # read back with nothing but the bytes
    if cfg["inp"] == "readonly":
        fin = ReadOnlyStream(data)
    elif cfg["inp"] == "file":
        p2 = os.path.join(scratch, "c04-in-%s.avro" % tag)
        with open(p2, "wb") as f:
            f.write(data)
        fin = open(p2, "rb")
    else:
        fin = io.BytesIO(data)

    def read_all():
        rd = fa.reader(fin)
        if len(data) % 3 == 0:
            # the records pulled one at a time with next() (a None record is a record like any other)
            got = []
            while True:
                try:
                    got.append(next(rd))
                except StopIteration:
                    break
            sh.count("files_read_with_next")
            return rd, got
        return rd, list(rd)

    st, res = guard(read_all)
    if cfg["inp"] == "file":
        fin.close()
        os.unlink(p2)
    if path:
        os.unlink(path)
    if st == "exc":
        if cfg["inp"] == "readonly" and fin.foreign:
            sh.violation("input-needs-more-than-read", "reader touched %r on a sequential input: %s" % (fin.foreign, exc_name(res)), info)
        else:
            sh.violation("reader-raised", "reader raised %s on the file just written (%d bytes)" % (exc_name(res), len(data)), info)
        return None
    rd, got = res
    if cfg["inp"] == "readonly":
        sh.count("readonly_inputs")
        sh.count("input_reads_logged", fin.calls)
        if fin.foreign:
            sh.violation("input-needs-more-than-read", "reader touched %r on a sequential input" % (fin.foreign,), info)
            return None
    if len(got) != len(expected) or not all(RC.same(a, b) for a, b in zip(got, expected)):
        sh.violation("records-differ", "read %d records %s, wrote %d: %s" % (len(got), printable(got, 250), len(expected), printable(expected, 250)), info)
        return None
    try:
        want_pcf = RP.pcf(js)
        got_pcf = RP.pcf({k: v for k, v in rd.writer_schema.items() if not k.startswith("__")} if isinstance(rd.writer_schema, dict) else rd.writer_schema)
    except Exception as e:
        sh.violation("schema-not-reported", "reader.writer_schema cannot be canonicalised: %s" % exc_name(e), info)
        return None
    if want_pcf != got_pcf:
        sh.violation("schema-differs", "canonical form of the reported schema %s != %s" % (got_pcf[:300], want_pcf[:300]), info)
        return None
    if rd.codec != cfg["codec"]:
        sh.violation("codec-differs", "reader.codec=%r, wrote with %r" % (rd.codec, cfg["codec"]), info)
        return None
    for k, v in (cfg["meta"] or {}).items():
        if k.startswith("avro."):
            sh.count("reserved_keys_in_user_metadata")
            continue  # reserved keys belong to the format, not to the user
        if rd.metadata.get(k) != v:
            sh.violation("metadata-lost", "metadata[%r]=%r, supplied %r" % (k, rd.metadata.get(k), v), info)
            return None
    sh.count("files_checked")
    sh.last_file = (data, expected)
    return got


def interleaved(sh, fa, rng, case):
    """Two readers alive at once: A is partly consumed, then a file B whose schema defines the
    same type names with another layout is opened and read, then the rest of A is consumed.
    Each file must still read back as written from its own bytes."""
    import random
    from ..gen.evolve import Evolver

    last = getattr(sh, "last_file", None)
    if not last or len(last[1]) < 2:
        return
    data_a, exp_a = last
    js = case["schema"]
    js_b, steps = Evolver(random.Random(rng.getrandbits(40))).evolve(js)
    if steps == ["identity_copy"]:
        return
    try:
        node_b, _env = RS.build(js_b)
    except Exception:
        return
    recs_b = []
    for _ in range(6):
        try:
            d = DatumGen(rng, size_budget=40, big=0.0, omit_defaults=0.0).gen(node_b)
            if RC.float_out_of_range(node_b, d):
                continue
            RC.from_datum(node_b, d)
        except RecursionError:
            return  # the evolved schema has no finite value
        except Exception:
            continue  # not a datum the model can place: leave it out
        if RC.float_out_of_range(node_b, d) or RC.raw_under_logical(node_b, d):
            continue
        recs_b.append(d)
    recs_b = recs_b[:3]
    if not recs_b:
        return
    run_interleave(sh, fa, data_a, exp_a, js, js_b, node_b, recs_b, steps)


def run_interleave(sh, fa, data_a, exp_a, js, js_b, node_b, recs_b, steps):
    fo = io.BytesIO()
    st, err = guard(fa.writer, fo, copy.deepcopy(js_b), recs_b)
    if st == "exc":
        sh.count("interleave_second_file_not_writable")
        return
    data_b = fo.getvalue()
    try:
        trees = RK.records(RK.parse(data_b), node_b)
        exp_b = [RC.normalise(node_b, d, t) for d, t in zip(recs_b, trees)]
    except Exception:
        sh.count("interleave_second_file_not_parsed")
        return
    if len(exp_b) != len(recs_b):
        return
    info = {"schema": js, "schema_b": js_b, "records_b": recs_b, "steps": steps, "file_a": data_a, "expected_a": exp_a, "interleaved": True}

    def run():
        ra = iter(fa.reader(io.BytesIO(data_a)))
        got_a = [next(ra)]
        rb = iter(fa.reader(io.BytesIO(data_b)))
        got_b = [next(rb)]
        got_a.append(next(ra))
        got_b.extend(rb)
        got_a.extend(ra)
        return got_a, got_b

    def alone():
        return list(fa.reader(io.BytesIO(data_b)))

    st, res = guard(alone)
    if st == "exc" or len(res) != len(exp_b) or not all(RC.same(a, b) for a, b in zip(res, exp_b)):
        sh.count("interleave_second_file_not_readable_alone")  # C01/C04 proper judge single files
        return
    st, res = guard(run)
    sh.count("interleaved_reader_pairs")
    if st == "exc":
        sh.violation("interleaved-readers-raised", "two live readers over files with the same type names (%s): %s" % (steps, exc_name(res)), info)
        return
    for nm, got, exp in (("first", res[0], exp_a), ("second", res[1], exp_b)):
        if len(got) != len(exp) or not all(RC.same(a, b) for a, b in zip(got, exp)):
            sh.violation("interleaved-readers-differ", "%s file read %s, holds %s" % (nm, printable(got, 200), printable(exp, 200)), info)
            return


def interleaved_writers(sh, fa, rng, case):
    """Two container writers alive at once (records routed to one file or the other, a writer()
    whose record iterable itself writes a side file): each file must be byte for byte the file
    the same records give when it is written on its own."""
    from fastavro.write import Writer

    js, recs = case["schema"], case["records"]
    if len(recs) < 2:
        return
    cfgs = [(rng.choice(CODECS), rng.choice([1, 10**6, 10**6])) for _ in range(2)]
    parts = [[], []]
    route = [rng.randrange(2) for _ in recs]
    for r, k in zip(recs, route):
        parts[k].append(r)
    info = {"schema": js, "records": recs, "route": route, "cfgs": cfgs, "interleaved_writers": True}

    def alone(k):
        fo = io.BytesIO()
        w = Writer(fo, copy.deepcopy(js), codec=cfgs[k][0], sync_interval=cfgs[k][1], sync_marker=bytes([k + 1]) * 16)
        for r in parts[k]:
            w.write(r)
        w.flush()
        return fo.getvalue()

    st, want = guard(lambda: [alone(0), alone(1)])
    if st == "exc":
        sh.count("interleaved_writers_not_writable_alone")  # the single-file path judges that
        return

    def together():
        fos = [io.BytesIO(), io.BytesIO()]
        ws = [Writer(fos[k], copy.deepcopy(js), codec=cfgs[k][0], sync_interval=cfgs[k][1], sync_marker=bytes([k + 1]) * 16) for k in range(2)]
        for r, k in zip(recs, route):
            ws[k].write(r)
        for w in ws:
            w.flush()
        return [f.getvalue() for f in fos]

    st, got = guard(together)
    sh.count("interleaved_writer_pairs")
    if st == "exc" or got != want:
        sh.violation("interleaved-writers-differ", "two writers alive at once: %s" % (exc_name(got) if st == "exc" else
                     "file sizes %s, written alone %s" % ([len(x) for x in got], [len(x) for x in want])), info)
        return

    # writer() whose iterable writes a side file for every record it hands over
    def nested():
        sides = []

        def feed():
            for r in parts[0]:
                side = io.BytesIO()
                fa.writer(side, copy.deepcopy(js), [r], codec=cfgs[1][0], sync_marker=b"\x09" * 16)
                sides.append(side.getvalue())
                yield r

        fo = io.BytesIO()
        fa.writer(fo, copy.deepcopy(js), feed(), codec=cfgs[0][0], sync_interval=cfgs[0][1], sync_marker=b"\x01" * 16)
        return fo.getvalue(), sides

    st, got = guard(nested)
    if st == "exc" or got[0] != want[0]:
        sh.violation("interleaved-writers-differ", "writer() whose record iterable calls writer(): %s" % (exc_name(got) if st == "exc" else "main file differs from the one written alone"), info)


def encoded_len(node, d):
    try:
        return len(RB.encode(node, RC.from_datum(node, d)))
    except Exception:
        return 1


def one_case(sh, fa, rng, case, scratch, tag, full_matrix=False):
    js, node, recs = case["schema"], case["node"], case["records"]
    lens = [encoded_len(node, d) for d in recs]
    L = lens[0] if lens else 1
    total = sum(lens)
    intervals = sorted({0, 1, max(L - 1, 0), L, L + 1, total, 10**6})
    if not isinstance(js, dict) or js.get("type") != "record":
        sh.count("non_record_top")
    if recs and total == 0:
        sh.count("zero_byte_record_files")
    if not recs:
        sh.count("empty_files")
    metas = [None, {}, {"k": "v"}, {"ключ": "значение ✓", "a.b": ""},
             # a dict carried over from another file (reader.metadata) holds the reserved keys
             {"avro.codec": rng.choice(CODECS), "origin": "copied"},
             {"avro.schema": '"int"', "avro.codec": "null", "x": "y"},
             # keys next to the reserved "avro." namespace but outside it
             {"avro_job": "1", "avrotool": "x", "avrodoc.version": "2", "Avro.note": "", "avro": "bare", "avr": "o."}]
    if full_matrix:
        combos = [(c, o, i) for c in CODECS for o, i in (("bytesio", "bytesio"), ("file", "file"), ("writeonly", "readonly"))]
    else:
        combos = [(rng.choice(CODECS), rng.choice(["bytesio", "file", "writeonly", "writeonly"]), rng.choice(["bytesio", "file", "readonly", "readonly"]))]
    for codec, out, inp in combos:
        ivs = rng.sample(intervals, min(len(intervals), 3)) if not full_matrix else [L, 10**6]
        if L in ivs:
            sh.count("interval_exact")
        seen = None
        for n, iv in enumerate(ivs):
            cfg = {"codec": codec, "interval": iv, "out": out, "inp": inp,
                   "parsed": rng.random() < 0.5,
                   "meta": rng.choice(metas),
                   "marker": bytes(rng.getrandbits(8) for _ in range(16)) if rng.random() < 0.5 else b"",
                   "level": rng.choice([None, 0, 1, 6, 9]) if codec == "deflate" else rng.choice([None, None, 1, 9]),
                   "flushes": sorted(rng.sample(range(len(recs)), rng.randint(0, len(recs)))) if recs and rng.random() < 0.3 else None}
            if cfg["flushes"] is None and recs and rng.random() < 0.12:
                cfg["block_copy"] = rng.choice(CODECS)
            elif rng.random() < 0.25:
                cfg["validator"] = True
            sh.case(h64(schema_shape(js), min(len(recs), 5), codec, intervals.index(iv), out, inp, cfg["parsed"]),
                    bool(recs) or out != "bytesio" or codec != "null")
            got = run_config(sh, fa, case, cfg, scratch, "%s-%d" % (tag, n))
            if got is None:
                return
            if seen is not None and not (len(seen) == len(got) and all(RC.same(a, b) for a, b in zip(seen, got))):
                sh.violation("grouping-dependent", "records differ between sync_interval values", {"schema": js, "records": recs, "cfg": cfg})
                return
            seen = got
            sh.count("codec_%s_%s_%s" % (codec, out, inp))


def run_shard(spec):
    import fastavro as fa

    sh = Shard(PID, spec)
    scratch = os.path.join(os.environ["VF_SCRATCH"], "io-%d" % spec["shard"])
    os.makedirs(scratch, exist_ok=True)
    if "replay" in spec:
        import base64, pickle

        info = pickle.loads(base64.b64decode(spec["replay"]["pickle"]))
        node, env = RS.build(info["schema"])
        if info.get("interleaved"):
            sh.case(None)
            run_interleave(sh, fa, info["file_a"], info["expected_a"], info["schema"], info["schema_b"],
                           RS.build(info["schema_b"])[0], info["records_b"], info["steps"])
            return sh.result()
        case = {"schema": info["schema"], "node": node, "records": info["records"]}
        sh.case(None)
        run_config(sh, fa, case, info["cfg"], scratch, "replay")
        return sh.result()
    rng = rng_for("C04", spec["seed"], spec["shard"])
    if spec.get("boundary"):
        for k, (js, recs) in enumerate(zero_byte_cases()):
            if k % 4 != spec["shard"] % 4:
                continue
            node, env = RS.build(js)
            sh.run_case(one_case, sh, fa, rng, {"schema": js, "node": node, "records": recs}, scratch, "b%d" % k, True)
    i = 0
    while i < spec["n"] and not sh.out_of_time():
        i += 1
        case = gen_case(rng, dict(bytes_defaults=0.3, null_ns_inside=0.05, union_default_any=True), dict(size_budget=80, big=0.01))
        if rng.random() < 0.1 and "record" in repr(case["schema"]):
            from ..gen.schema import errorize
            case["schema"] = errorize(case["schema"], rng)
            case["node"], case["env"] = RS.build(case["schema"])
            sh.count("error_kind_schemas")
        node = case["node"]
        nrec = rng.choice([0, 1, 1, 2, 3, 5, 8, 20])
        recs = [case["datum"]]
        while len(recs) < nrec:
            g = DatumGen(rng, size_budget=60, big=0.0)
            d = g.gen(node)
            if RC.float_out_of_range(node, d):
                continue
            try:
                RC.from_datum(node, d)
            except RecursionError:
                continue
            recs.append(d)
        recs = recs[:nrec]
        case["records"] = recs
        sh.feat(case["features"])
        sh.last_file = None
        sh.run_case(one_case, sh, fa, rng, case, scratch, "c%d" % i)
        if i % 4 == 0:
            sh.run_case(interleaved, sh, fa, rng, case)
        if i % 4 == 1:
            sh.run_case(interleaved_writers, sh, fa, rng, case)
        if i % 60 == 1:
            sh.sample({"schema": case["schema"], "n_records": len(recs), "first": printable(recs[:1], 200)})
    return sh.result()

"""C09 — union branch choice: deterministic, honours hints, closed under
read/write with named-type reporting."""
import base64
import copy
import io
import json
import os
import pickle
import subprocess
import sys

from ..harness import Shard, rng_for, h64, schema_shape, datum_shape, printable, guard, exc_name
from ..gen.cases import gen_case
from ..ref import schema as RS, binary as RB, conform as RC
from ..ref.schema import deref, NAMED

PID = "C09"
LEVEL = "exploration"
RULE = (
    "cases = union-heavy generated schemas (primitive mixes, by-name references, arrays/maps, "
    "logical types in 30%) with conforming data, hints at 30% of unions ((name,value) tuples and "
    "'-type'), plus targeted families: 2-4 record branches with overlapping nullable fields and "
    "data sharing random subsets of field names (ties), float/double in either order with int and "
    "float data, hints naming no branch, an unhinted outer union of records whose inner hint "
    "names a branch only a later candidate has. Oracle (i): the union indices in the written bytes "
    "(independent decoder) equal the rule of the statement applied with an independent conformance "
    "predicate (hint => that branch, error if none; else first conforming non-record branch with "
    "float deferred to a later double; else the conforming record sharing most field names, first "
    "on ties); (ii) the same (schema, datum) re-encoded in a fresh process with another "
    "PYTHONHASHSEED, after unrelated calls, gives identical bytes; (iii) read(return_named_type) "
    "then write reproduces the bytes, and every tag returned under return_named_type / "
    "return_record_name (+ overrides) equals the full name of the branch the bytes select. "
    "distinct = hash(union shape, datum classes, hint kind, flags); non-trivial = >=2 conforming "
    "branches or a hint."
)
ASSUMPTIONS = [
    "a conforming non-record branch wins over any record branch (A14)",
    "bytes/bytearray vs array branches: either reading accepted (A17)",
    "closure is decided for return_named_type=True; for the other reader options only tag correctness and closure when the write-back succeeds (A15)",
]
N = {"quick": 160000, "thorough": 2400000}
TIME_LIMIT = {"quick": 40, "thorough": 560}
SHARDS = 16
REACH = {
    "quick": {"branch_rule_checked": 8000, "hinted_writes": 300, "wrong_name_hints": 100, "wide_union_cases": 25, "combined_option_reads": 2000, "block_reader_tag_reads": 500,
              "record_ties": 100, "float_double_deferral": 50, "inner_hint_decides_outer": 300, "closure_roundtrips": 4000,
              "closure_named_record": 100, "closure_named_enum": 100, "closure_named_fixed": 100,
              "determinism_cross_process": 500, "tags_checked": 1000},
    "thorough": {"branch_rule_checked": 200000},
}


def plan(tier, seed):
    n = N[tier]
    return [{"shard": i, "n": n // SHARDS, "seed": seed, "tier": tier, "time_limit": TIME_LIMIT[tier]}
            for i in range(SHARDS)]


# ---------------------------------------------------------------- targeted
def tie_case(rng):
    pool = ["a", "b", "c", "d", "e"]
    nrec = rng.randint(2, 4)
    branches = []
    for i in range(nrec):
        fs = rng.sample(pool, rng.randint(1, 4))
        fields = []
        for f in fs:
            if rng.random() < 0.5:
                fields.append({"name": f, "type": ["null", "int"]})
            else:
                fields.append({"name": f, "type": "int", "default": 0})
        branches.append({"type": "record", "name": "R%d" % i, "namespace": rng.choice(["", "t"]), "fields": fields})
    extra = rng.choice([[], ["null"], ["string"], [{"type": "map", "values": "int"}]])
    u = branches + extra
    rng.shuffle(u)
    if rng.random() < 0.5:
        js = {"type": "record", "name": "Top", "fields": [{"name": "u", "type": u}]}
        d = {"u": {k: rng.randint(-5, 5) for k in rng.sample(pool, rng.randint(0, 4))}}
    else:
        js = u
        d = {k: rng.randint(-5, 5) for k in rng.sample(pool, rng.randint(0, 4))}
    return js, d, {"record_tie"}


def similar_names_case(rng):
    """Record branches whose names are suffixes / prefixes / namespace variants of one another,
    written with a hint: the hint selects exactly the branch of that full name, and a string
    that merely resembles a name (suffix, short name of a namespaced record) is no branch."""
    pool = ["a", "b", "c"]
    names = rng.sample([("", "Item"), ("", "SubItem"), ("", "ItemX"), ("t", "Item"), ("t.s", "Item"), ("s", "SubItem"), ("", "tItem"), ("shop", "Refund"), ("", "fund")],
                       rng.randint(2, 5))
    branches = []
    for ns, short in names:
        fields = [{"name": f, "type": ["null", "int"]} if rng.random() < 0.5 else {"name": f, "type": "int", "default": 0}
                  for f in rng.sample(pool, rng.randint(1, 3))]
        b = {"type": "record", "name": short, "fields": fields}
        if ns:
            b["namespace"] = ns
        else:
            b["namespace"] = ""
        branches.append(b)
    u = branches + rng.choice([[], ["null"], ["string"]])
    rng.shuffle(u)
    fulls = [(ns + "." + short) if ns else short for ns, short in names]
    body = {k: rng.randint(-5, 5) for k in rng.sample(pool, rng.randint(0, 3))}
    feats = {"similar_names"}
    if rng.random() < 0.6:
        target = rng.choice(fulls)
        feats.add("hint_exact_among_similar")
    else:
        # strings that resemble a branch name without being one
        cands = set()
        for f in fulls:
            cands |= {f[1:], f[2:], f.rsplit(".", 1)[-1], "x" + f, f + "x", f.lower(), "." + f}
        cands -= set(fulls)
        cands.discard("")
        target = rng.choice(sorted(cands))
        feats.add("wrong_hint")
    if rng.random() < 0.5:
        d = dict(body)
        d["-type"] = target
        feats.add("hint_dash_type")
    else:
        d = (target, body)
        feats.add("hint_tuple")
    if rng.random() < 0.5:
        return {"type": "record", "name": "Top", "namespace": "", "fields": [{"name": "u", "type": u}]}, {"u": d}, feats
    return u, d, feats


def inner_hint_case(rng):
    """An unhinted outer union of records whose fields are unions themselves: a hint inside the
    datum names a branch that only some of the outer candidates have, so it is the hint that
    decides which outer record the datum conforms to (the bare value would fit them all)."""
    def rec(name, *fields):
        return {"type": "record", "name": name, "fields": list(fields)}

    if rng.random() < 0.5:
        leaves = [rec(n, {"name": "v", "type": "int"}) for n in ("X", "Y", "Z", "W")]
        value = {"v": rng.randint(-3, 3)}
        names = ["X", "Y", "Z", "W"]
    else:
        leaves = ["int", "long", "string", "double"]
        names = list(leaves)
        value = None
    k = rng.randint(2, 3)
    outers, defined = [], set()
    for i in range(k):
        picks = rng.sample(range(4), rng.randint(1, 3))
        inner = []
        for j in picks:
            if isinstance(leaves[j], dict) and names[j] in defined:
                inner.append(names[j])
            else:
                inner.append(leaves[j])
                defined.add(names[j])
        outers.append((rec("Outer%d" % i, {"name": "f", "type": inner}), [names[j] for j in picks]))
    # a name carried by a later candidate only, if there is one
    later = [n for i, (_o, ns) in enumerate(outers) for n in ns if i > 0 and n not in outers[0][1]]
    target = rng.choice(later) if later and rng.random() < 0.8 else rng.choice(names)
    if value is None:
        value = {"int": 5, "long": 5, "string": "s", "double": 5}[target] if rng.random() < 0.7 else 5
    u = [o for o, _ns in outers] + rng.choice([[], ["null"]])
    d = {"f": (target, value)}
    feats = {"inner_hint_decides_outer", "hint_tuple"}
    if rng.random() < 0.5:
        return {"type": "record", "name": "Top", "fields": [{"name": "u", "type": u}]}, {"u": d}, feats
    return {"type": "array", "items": u}, [d], feats


def float_case(rng):
    others = rng.sample(["null", "string", "boolean", "bytes"], rng.randint(0, 2))
    nums = rng.choice([["float", "double"], ["double", "float"], ["float", "int"], ["int", "float", "double"],
                       ["float", "long", "double"], ["long", "float"], ["float"], ["float", "string", "double"]])
    u = nums + others
    if rng.random() < 0.4:
        rng.shuffle(u)
    d = rng.choice([1.5, 0.1, 3, -7, 2**40, float("inf"), 0.0, 1e30, 16777217])
    return {"type": "array", "items": u}, [d, d], {"float_double"}


def wrong_hint_case(rng, case):
    """Replace the datum of a top-level-union / record-field-union case by a hint naming no branch."""
    return ("no.such.Branch", case["datum"])


# -------------------------------------------------------------------- tags
def expected_tagged(node, tree, mode, fa_single):
    """Python value with the tags the reader options promise.
    mode in {'named', 'named_override', 'record', 'record_override'}."""
    node = deref(node)
    k = node.kind
    v = tree[1]
    if k == "union":
        i, child = v
        b = deref(node.branches[i])
        inner = expected_tagged(node.branches[i], child, mode, fa_single)
        nnamed = sum(1 for x in node.branches if deref(x).kind in NAMED)
        nrec_like = sum(1 for x in node.branches if deref(x).kind == "record" or x.kind == "ref")
        tag = False
        if mode == "named":
            tag = b.kind in NAMED
        elif mode == "named_override":
            tag = b.kind in NAMED and nnamed != 1
        elif mode == "record":
            tag = b.kind == "record" or node.branches[i].kind == "ref"
        elif mode == "record_override":
            tag = (b.kind == "record" or node.branches[i].kind == "ref") and nrec_like != 1
        return (b.name, inner) if tag else inner
    if k == "record":
        return {f.name: expected_tagged(f.type, c, mode, fa_single) for f, c in zip(node.fields, v)}
    if k == "array":
        return [expected_tagged(node.items, c, mode, fa_single) for c in v[0]]
    if k == "map":
        return {key: expected_tagged(node.values, c, mode, fa_single) for key, c in v[0]}
    if k == "enum":
        return node.symbols[v]
    return v


def tags_ok(node, tree, value, path=()):
    """Every tuple in `value` at a union position names the selected branch."""
    node = deref(node)
    k = node.kind
    v = tree[1]
    if k == "union":
        i, child = v
        b = deref(node.branches[i])
        if type(value) is tuple:
            if len(value) != 2 or value[0] != (b.name if b.kind in NAMED else None):
                return "at %r: tag %r, selected branch is %r" % (path, value[0] if value else None, b.name or b.kind)
            value = value[1]
        return tags_ok(node.branches[i], child, value, path + (i,))
    if k == "record":
        if not isinstance(value, dict):
            return "at %r: not a dict" % (path,)
        for f, c in zip(node.fields, v):
            r = tags_ok(f.type, c, value.get(f.name), path + (f.name,))
            if r:
                return r
    elif k == "array":
        if not isinstance(value, list) or len(value) != len(v[0]):
            return "at %r: array mismatch" % (path,)
        for n, (c, x) in enumerate(zip(v[0], value)):
            r = tags_ok(node.items, c, x, path + (n,))
            if r:
                return r
    elif k == "map":
        if not isinstance(value, dict):
            return "at %r: map mismatch" % (path,)
        for key, c in v[0]:
            r = tags_ok(node.values, c, value.get(key), path + (key,))
            if r:
                return r
    return None


def count_named(node, tree, out):
    node = deref(node)
    k = node.kind
    v = tree[1]
    if k == "union":
        b = deref(node.branches[v[0]])
        if b.kind in NAMED:
            out.add(b.kind)
        count_named(node.branches[v[0]], v[1], out)
    elif k == "record":
        for f, c in zip(node.fields, v):
            count_named(f.type, c, out)
    elif k == "array":
        for c in v[0]:
            count_named(node.items, c, out)
    elif k == "map":
        for _k, c in v[0]:
            count_named(node.values, c, out)


def rule_stable(node, tree):
    """True if every non-named union selection in the tree is what the branch
    rule gives for the plain read-back value at that node (a selection forced
    by a hint such as ('long', 5) is not recoverable from the value read back,
    so closure cannot be demanded there)."""
    node = deref(node)
    k = node.kind
    v = tree[1]
    if k == "union":
        i, child = v
        b = deref(node.branches[i])
        if b.kind not in NAMED:
            plain = RB.to_py(node.branches[i], child)
            for loose in (False, True):  # both readings of bytes-as-sequence must agree
                try:
                    if RC.choose_branch(node, plain, True, loose)[0] != i:
                        return False
                except RC.NoBranch:
                    return False
        return rule_stable(node.branches[i], child)
    if k == "record":
        return all(rule_stable(f.type, c) for f, c in zip(node.fields, v))
    if k == "array":
        return all(rule_stable(node.items, c) for c in v[0])
    if k == "map":
        return all(rule_stable(node.values, c) for _k, c in v[0])
    return True


def canon_decimals(node, t):
    """The value tree with every bytes-backed decimal in its shortest two's-complement form."""
    from ..ref.schema import deref
    node = deref(node)
    k = node.kind
    try:
        if k == "bytes" and node.logical == "decimal" and isinstance(t, tuple) and t[0] == "bytes" and t[1]:
            n = int.from_bytes(t[1], "big", signed=True)
            return ("bytes", n.to_bytes(max(1, (n.bit_length() + 8) // 8 if n >= 0 else ((n + 1).bit_length() + 8) // 8), "big", signed=True))
        if k == "union" and t[0] == "union":
            i, child = t[1]
            return ("union", (i, canon_decimals(node.branches[i], child)))
        if k == "record" and t[0] == "record":
            return ("record", [canon_decimals(f.type, c) for f, c in zip(node.fields, t[1])])
        if k == "array" and t[0] == "array":
            return ("array", [canon_decimals(node.items, c) for c in t[1]])
        if k == "map" and t[0] == "map":
            return ("map", [(key, canon_decimals(node.values, c)) for key, c in t[1]])
    except Exception:
        pass
    return t


def write_bytes(fa, schema_arg, d, dtn):
    out = io.BytesIO()
    fa.schemaless_writer(out, schema_arg, d, disable_tuple_notation=dtn)
    return out.getvalue()


def one_case(sh, fa, rng, case, dtn, det_log):
    js, node, d = case["schema"], case["node"], case["datum"]
    feats = case["features"]
    info = {"schema": js, "datum": d, "disable_tuple_notation": dtn}
    tuples = not dtn
    # expected trees under both readings of bytes-as-sequence
    exp = []
    for loose in (False, True):
        try:
            exp.append(RB.strip_spans(RC.from_datum(node, d, tuples, loose)))
        except RC.NoBranch:
            exp.append("nobranch")
        except RecursionError:
            return
        except Exception:
            exp.append("error")
    hinted = bool({"hint_tuple", "hint_dash_type"} & feats)
    sh.case(h64(schema_shape(js), datum_shape(d), dtn), hinted or "record_tie" in feats or "float_double" in feats or any(f.startswith("union") for f in feats))
    parsed = rng.random() < 0.5
    if parsed:
        st, schema_arg = guard(fa.parse_schema, copy.deepcopy(js))
        if st == "exc":
            sh.violation("parse-rejected-valid-schema", exc_name(schema_arg), info)
            return
    else:
        schema_arg = copy.deepcopy(js)
    st, data = guard(write_bytes, fa, schema_arg, d, dtn)
    if all(e in ("nobranch", "error") for e in exp):
        if "wrong_hint" in feats:
            sh.count("wrong_name_hints")
        if st == "ok":
            sh.violation("hint-naming-no-branch-accepted" if "wrong_hint" in feats else "nonconforming-union-datum-written",
                         "writer produced %s for a datum no branch takes" % data[:40].hex(), info)
        return
    if st == "exc":
        sh.violation("writer-raised", "schemaless_writer raised %s on a datum with a conforming branch" % exc_name(data), info)
        return
    try:
        tree = RB.decode_all(node, data)
    except RB.DecodeError as e:
        sh.violation("bytes-undecodable", str(e), info)
        return
    # a decimal's two's-complement bytes need not be of minimal length (C16 judges the number):
    # both sides are brought to the minimal form before the branch indices are compared
    got = canon_decimals(node, RB.strip_spans(tree))
    exp = [canon_decimals(node, e) if e not in ("nobranch", "error") else e for e in exp]
    if not any(RC.same(got, e) for e in exp):
        # locate the first differing union for the message
        sh.violation("branch-rule-violated", "bytes select %s, the statement's rule gives %s" % (printable(got, 260), printable(exp[0], 260)), info)
        return
    sh.count("branch_rule_checked")
    if hinted:
        sh.count("hinted_writes")
    if "record_tie" in feats:
        sh.count("record_ties")
    if "float_double" in feats:
        sh.count("float_double_deferral")
    if len(det_log) < 400 and rng.random() < 0.3:
        det_log.append((js, d, dtn, data))
    # (iii) closure and tags
    if RC.raw_under_logical(node, d, tuples):
        return
    kinds = set()
    count_named(node, tree, kinds)

    def read(**kw):
        return fa.schemaless_reader(io.BytesIO(data), schema_arg, **kw)

    st, v = guard(read, return_named_type=True)
    if st == "exc":
        sh.violation("reader-raised", "return_named_type read raised %s" % exc_name(v), info)
        return
    bad = tags_ok(node, tree, v)
    if bad:
        sh.violation("wrong-tag", "return_named_type: %s" % bad, info)
        return
    has_logical = any(n.logical for n in RS.walk(node))
    if not has_logical:
        want = expected_tagged(node, tree, "named", None)
        if not RC.same(v, want):
            sh.violation("named-branch-not-tagged", "return_named_type gave %s, expected %s" % (printable(v, 250), printable(want, 250)), info)
            return
    if not rule_stable(node, tree):
        sh.count("closure_not_demanded_hint_forced_primitive_branch")
        return
    st, back = guard(write_bytes, fa, schema_arg, v, False)
    if st == "exc" or back != data:
        sh.violation("not-closed-under-read-write", "re-writing the named-type read gives %s, original bytes %s"
                     % (exc_name(back) if st == "exc" else back[:60].hex(), data[:60].hex()), dict(info, read_value=v))
        return
    sh.count("closure_roundtrips")
    for kd in kinds:
        sh.count("closure_named_" + kd)
    # the same through the container reader with a reader schema equal to the writer schema
    # (named-type reporting then takes the names from the reader's side)
    if rng.random() < 0.15 and not has_logical:
        from ..ref import container as RKc

        blob, _b = RKc.write(js, [data], [1])
        st, vv = guard(lambda: list(fa.reader(io.BytesIO(blob), reader_schema=copy.deepcopy(js), return_named_type=True)))
        if st == "exc" or len(vv) != 1 or not RC.same(vv[0], want):
            sh.violation("named-branch-not-tagged", "container reader with reader_schema == writer schema and return_named_type gave %s, expected %s"
                         % (exc_name(vv) if st == "exc" else printable(vv, 250), printable(want, 250)), info)
            return
        sh.count("reader_schema_named_reads")
    for mode, kw in (("record", {"return_record_name": True}),
                     ("record_override", {"return_record_name": True, "return_record_name_override": True}),
                     ("named_override", {"return_named_type": True, "return_named_type_override": True})):
        st, v = guard(read, **kw)
        if st == "exc":
            sh.violation("reader-raised", "%s read raised %s" % (mode, exc_name(v)), info)
            return
        bad = tags_ok(node, tree, v)
        if bad:
            sh.violation("wrong-tag", "%s: %s" % (mode, bad), info)
            return
        if mode == "named_override" and not has_logical:
            # documented: a tag only where the union has more than one named type
            want_o = expected_tagged(node, tree, "named_override", None)
            if not RC.same(v, want_o):
                sh.violation("override-tagging-wrong", "return_named_type_override gave %s, expected %s" % (printable(v, 250), printable(want_o, 250)), info)
                return
        sh.count("tags_checked")
        st, back = guard(write_bytes, fa, schema_arg, v, False)
        if st == "ok" and back == data:
            sh.count("closure_other_modes_ok")
        else:
            sh.count("closure_other_modes_not_reproduced")  # allowed (A15): untagged records re-resolve
    # the same reporting through the block reader (its own option plumbing)
    if rng.random() < 0.2 and not has_logical:
        from ..ref import container as RKc

        blob, _b = RKc.write(js, [data, data], [1, 1])
        for mode, kw in (("named", {"return_named_type": True}), ("named_override", {"return_named_type": True, "return_named_type_override": True})):
            st, vv = guard(lambda: [r for blk in fa.block_reader(io.BytesIO(blob), **kw) for r in blk])
            want_b = expected_tagged(node, tree, mode, None)
            if st == "exc" or len(vv) != 2 or not all(RC.same(x, want_b) for x in vv):
                sh.violation("named-branch-not-tagged" if mode == "named" else "override-tagging-wrong",
                             "block_reader(%s) gave %s, expected %s" % (sorted(kw), exc_name(vv) if st == "exc" else printable(vv[:1], 250), printable(want_b, 250)), dict(info, api="block_reader", options=kw))
                return
        sh.count("block_reader_tag_reads")
    # both option families at once: named-type reporting decides, the record-name options add nothing
    if not has_logical:
        rec_kw = rng.choice([{"return_record_name": True}, {"return_record_name_override": True},
                             {"return_record_name": True, "return_record_name_override": True}])
        for over in (False, True):
            kw = dict(rec_kw, return_named_type=True)
            if over:
                kw["return_named_type_override"] = True
            st, v = guard(read, **kw)
            want_c = expected_tagged(node, tree, "named_override" if over else "named", None)
            if st == "exc" or not RC.same(v, want_c):
                sh.violation("override-tagging-wrong" if over else "named-branch-not-tagged",
                             "options %s gave %s, expected %s" % (sorted(kw), exc_name(v) if st == "exc" else printable(v, 250), printable(want_c, 250)), dict(info, options=kw))
                return
            if not over:
                st, back = guard(write_bytes, fa, schema_arg, v, False)
                if st == "exc" or back != data:
                    sh.violation("not-closed-under-read-write", "options %s: re-writing the read value gives %s, original bytes %s"
                                 % (sorted(kw), exc_name(back) if st == "exc" else back[:60].hex(), data[:60].hex()), dict(info, read_value=v, options=kw))
                    return
            sh.count("combined_option_reads")


DET_CHILD = r"""
import sys, pickle, io, base64
import fastavro
cases = pickle.load(open(sys.argv[1], 'rb'))
# unrelated calls first
fastavro.parse_schema({"type": "record", "name": "Ev", "fields": [{"name": "z", "type": ["null", "string"]}]})
fastavro.validate({"z": "q"}, {"type": "record", "name": "Ev", "fields": [{"name": "z", "type": ["null", "string"]}]})
bad = []
for n, (js, d, dtn, data) in reversed(list(enumerate(cases))):
    out = io.BytesIO()
    try:
        fastavro.schemaless_writer(out, js, d, disable_tuple_notation=dtn)
        got = out.getvalue()
    except Exception as e:
        got = repr(e).encode()
    if got != data:
        bad.append(n)
pickle.dump(bad, open(sys.argv[2], 'wb'))
"""


def determinism(sh, det_log, spec):
    if not det_log:
        return
    scratch = os.environ["VF_SCRATCH"]
    inp = os.path.join(scratch, "det-in-%d.pkl" % spec["shard"])
    outp = os.path.join(scratch, "det-out-%d.pkl" % spec["shard"])
    with open(inp, "wb") as f:
        pickle.dump(det_log, f)
    for hs in ("0", "12345"):
        env = dict(os.environ, PYTHONHASHSEED=hs)
        p = subprocess.run([sys.executable, "-B", "-c", DET_CHILD, inp, outp], env=env, cwd=scratch,
                           stdout=subprocess.PIPE, stderr=subprocess.PIPE, timeout=300)
        if p.returncode != 0:
            sh.errors.append("determinism child failed: " + p.stderr.decode()[-500:])
            sh.counters["oracle_errors"] += 1
            return
        bad = pickle.load(open(outp, "rb"))
        for n in bad[:3]:
            js, d, dtn, data = det_log[n]
            sh.violation("nondeterministic-bytes", "a fresh process (PYTHONHASHSEED=%s) encodes this datum differently" % hs,
                         {"schema": js, "datum": d, "disable_tuple_notation": dtn})
        sh.count("determinism_cross_process", len(det_log))


def run_shard(spec):
    import fastavro as fa

    sh = Shard(PID, spec)
    rng = rng_for("C09", spec["seed"], spec["shard"])
    det_log = []
    if "replay" in spec:
        info = pickle.loads(base64.b64decode(spec["replay"]["pickle"]))
        node, env = RS.build(info["schema"])
        feats = {"hint_tuple"} if "hint" in spec["replay"]["kind"] else set()
        case = {"schema": info["schema"], "node": node, "datum": info["datum"], "features": feats | {"wrong_hint"} if "no-branch" in spec["replay"]["kind"] else feats}
        one_case(sh, fa, rng, case, info.get("disable_tuple_notation", False), det_log)
        return sh.result()
    if spec["shard"] == 0:
        # unions wide enough for two-byte branch indices, with and without hints
        from ..gen.cases import boundary_cases
        from ..ref.schema import hint_name, deref
        for js, d, feats in boundary_cases():
            if "wide_union" not in feats or not isinstance(js, list):
                continue
            node, env = RS.build(js)
            variants = [d]
            if not (type(d) is tuple):
                try:
                    idx = RC.choose_branch(node, d)[0]
                    variants.append((hint_name(node.branches[idx]), d))
                    if isinstance(d, dict):
                        variants.append(dict(d, **{"-type": hint_name(node.branches[idx])}))
                except Exception:
                    pass
            for v in variants:
                hinted = {"hint_tuple"} if type(v) is tuple else ({"hint_dash_type"} if isinstance(v, dict) and "-type" in v else set())
                sh.run_case(one_case, sh, fa, rng, {"schema": js, "node": node, "datum": v, "features": set(feats) | hinted}, False, det_log)
                sh.count("wide_union_cases")
    i = 0
    while i < spec["n"] and not sh.out_of_time():
        i += 1
        x = rng.random()
        if x < 0.12:
            js, d, feats = tie_case(rng)
            node, env = RS.build(js)
            case = {"schema": js, "node": node, "datum": d, "features": set(feats)}
        elif x < 0.16:
            js, d, feats = similar_names_case(rng)
            node, env = RS.build(js)
            case = {"schema": js, "node": node, "datum": d, "features": set(feats)}
        elif x < 0.19:
            js, d, feats = inner_hint_case(rng)
            node, env = RS.build(js)
            case = {"schema": js, "node": node, "datum": d, "features": set(feats)}
            sh.count("inner_hint_decides_outer")
        elif x < 0.25:
            js, d, feats = float_case(rng)
            node, env = RS.build(js)
            case = {"schema": js, "node": node, "datum": d, "features": set(feats)}
        else:
            logical = rng.random() < 0.3
            case = gen_case(rng, dict(bytes_defaults=0.0, logical=logical, max_depth=4),
                            dict(hints=0.3, size_budget=50, big=0.003))
            if x > 0.93 and isinstance(case["schema"], list):
                case["datum"] = wrong_hint_case(rng, case)
                case["features"] = set(case["features"]) | {"wrong_hint"}
            elif x > 0.9:
                u = ["null", "string", {"type": "enum", "name": "E", "symbols": ["A"]}]
                js = {"type": "map", "values": u}
                node, env = RS.build(js)
                case = {"schema": js, "node": node, "datum": {"k": (rng.choice(["nope", "E2", "str", "x.E"]), "A")}, "features": {"wrong_hint"}}
        dtn = rng.random() < 0.2
        sh.feat(case["features"])
        sh.run_case(one_case, sh, fa, rng, case, dtn, det_log)
        if i % 300 == 1:
            sh.sample({"schema": case["schema"], "datum": printable(case["datum"], 200), "disable_tuple_notation": dtn})
    sh.run_case(determinism, sh, det_log, spec)
    return sh.result()

"""C07 — any history of write / failed write / flush / write_block / abandon /
reopen-append reads back as exactly the records successfully submitted."""
import copy
import io
import os

from ..harness import Shard, rng_for, h64, printable, guard, exc_name
from ..ref import schema as RS, binary as RB, conform as RC, container as RK
from ..mon.streams import FlushedView

PID = "C07"
LEVEL = "exploration"
RULE = (
    "histories of 5-40 operations over one seekable stream, drawn from {new Writer(codec, "
    "sync_interval in {1, ~3 records, 10^6}, metadata, validator on/off, marker), write(small | "
    "large | zero-byte record), write(non-conforming record failing before any byte / after "
    "earlier fields / inside the 3rd array item / on enum, fixed, missing field), flush, "
    "write_block of every block of a donor file (any codec, 0/1/many records per block), abandon "
    "(drop the writer unflushed), reopen for append with other schema / None / other or unknown "
    "codec / other metadata / other marker, writer() convenience call in append mode}. Every "
    "record carries a unique id. Model: header frozen at creation, durable list, pending list. "
    "After each flush the stream is parsed by the independent container parser and by "
    "fastavro.reader: records == durable, header bytes identical, every block under the creation "
    "codec and marker. An icontract class invariant on Writer (pending buffer decodes into "
    "exactly block_count records) runs at every method boundary as a pinpointing monitor. "
    "distinct = hash(op-kind sequence, codec, interval); non-trivial = >=2 op kinds besides write."
)
ASSUMPTIONS = [
    "abandon is not an operation of the statement; the model resynchronises from the independent parser and accepts any prefix of the pending list (A9)",
    "a 'failed write' is a write that raises; generated non-conforming records are ones no encoder can encode (wrong Python type for long/string, unknown symbol, wrong fixed size, missing required field)",
]
N = {"quick": 16000, "thorough": 400000}
TIME_LIMIT = {"quick": 40, "thorough": 560}
SHARDS = 16
CODECS = ["null", "deflate", "bzip2", "xz"]
REACH = {
    "quick": {"histories": 2000, "flush_readbacks": 4000, "failed_then_ok_same_block": 100,
              "write_block_with_pending": 50, "append_after_empty_flush": 30,
              "histories_two_reopens": 50, "failed_writes": 1000},
    "thorough": {"histories": 50000},
}

ID_SCHEMA = {
    "type": "record", "name": "Ev", "namespace": "h",
    "fields": [
        {"name": "id", "type": "long"},
        {"name": "s", "type": "string"},
        {"name": "arr", "type": {"type": "array", "items": "int"}},
        {"name": "e", "type": {"type": "enum", "name": "Col", "symbols": ["R", "G", "B"]}},
        {"name": "fx", "type": {"type": "fixed", "name": "F4", "size": 4}},
        {"name": "u", "type": ["null", "string", "long"], "default": None},
        {"name": "fl", "type": "float"},
        # the named types used again, by name (an appending writer must keep resolving these in the file's own schema)
        {"name": "e2", "type": "h.Col"},
        {"name": "fx2", "type": ["null", "F4"], "default": None},
        {"name": "last", "type": "long"},
    ],
}
ZERO_SCHEMAS = ["null", {"type": "record", "name": "Empty", "fields": []}, {"type": "fixed", "name": "Z", "size": 0}]
OTHER_SCHEMAS = [None, "string", {"type": "record", "name": "Other", "fields": [{"name": "q", "type": "int"}]},
                 # the file's type names defined differently
                 {"type": "record", "name": "Ev2", "namespace": "h", "fields": [
                     {"name": "c", "type": {"type": "enum", "name": "Col", "symbols": ["B", "G", "R", "X"]}},
                     {"name": "f", "type": {"type": "fixed", "name": "F4", "size": 2}}]},
                 {"type": "record", "name": "Ev", "namespace": "h", "fields": [{"name": "id", "type": "string"}]}]


def plan(tier, seed):
    n = N[tier]
    return [{"shard": i, "n": n // SHARDS, "seed": seed, "tier": tier, "time_limit": TIME_LIMIT[tier]}
            for i in range(SHARDS)]


class Ids:
    def __init__(self):
        self.n = 0

    def next(self):
        self.n += 1
        return self.n


def good_record(rng, ids, family, size=None):
    if family != "id":
        return {"null": None, "record": {}, "fixed": b""}[family]
    size = size or rng.choice(["small", "small", "large"])
    i = ids.next()
    return {"id": i, "s": ("x" * 5000 if size == "large" else ("y%d" % i) * 30000 if size == "huge" else "s%d" % i),
            "arr": [i % 7, 1, 2][: rng.randint(0, 3)], "e": rng.choice(["R", "G", "B"]),
            "fx": bytes([i % 256, 1, 2, 3]), "u": rng.choice([None, "u", i]), "fl": float(i % 100),
            "e2": ["R", "G", "B"][i % 3], "fx2": rng.choice([None, bytes([9, 8, 7, i % 256])]), "last": -i}


def bad_record(rng, ids, kind):
    r = good_record(rng, ids, "id", "small")
    if kind == "bad_first":
        r["id"] = "not-a-long"
    elif kind == "bad_last":
        r["last"] = "not-a-long"
    elif kind == "bad_arr3":
        r["arr"] = [1, 2, "x", 4]
    elif kind == "bad_enum":
        r["e"] = "ZZ"
    elif kind == "bad_fixed":
        r["fx"] = b"12"
    elif kind == "missing":
        del r["s"]
    elif kind == "bad_string":
        r["s"] = None
    elif kind == "bad_float_overflow":
        r["fl"] = 1e300  # OverflowError from struct.pack, after the earlier fields were encoded
    elif kind == "bad_float_type":
        r["fl"] = [1.5]  # TypeError from float() / struct
    elif kind == "bad_union":
        r["u"] = object()
    elif kind == "bad_array_type":
        r["arr"] = 5
    elif kind == "bad_fixed_type":
        r["fx"] = 5
    return r


BAD_KINDS = ["bad_first", "bad_last", "bad_arr3", "bad_enum", "bad_fixed", "missing", "bad_string",
             "bad_float_overflow", "bad_float_type", "bad_union", "bad_array_type", "bad_fixed_type"]


# where the handle stands when it is handed over for appending: a caller may have
# looked at the file through it first
POSITIONS = ["end", "end", "magic", "header", "mid", "one"]


def gen_history(rng):
    family = rng.choice(["id"] * 5 + ["null", "record", "fixed"])
    cfg = {"family": family, "codec": rng.choice(CODECS), "interval": rng.choice([1, 40, 40, 10**6, 10**6]),
           "validator": rng.random() < 0.35,
           "meta": rng.choice([None, {"k": "v"}, {"a": "é"}, {"avro.codec": rng.choice(CODECS), "from": "another file"}]),
           "marker": rng.choice([b"", bytes(rng.getrandbits(8) for _ in range(16))])}
    ops = [("new", cfg)]
    n = rng.randint(5, 40)
    for _ in range(n):
        x = rng.random()
        if x < 0.45:
            ops.append(("write", rng.choice(["small", "small", "large"]) if rng.random() < 0.96 else "huge"))
        elif x < 0.60 and family == "id":
            ops.append(("write_bad", rng.choice(BAD_KINDS)))
        elif x < 0.75:
            ops.append(("flush",))
        elif x < 0.83:
            ops.append(("write_block", {"codec": rng.choice(CODECS), "counts": [rng.choice([0, 1, 1, 3]) for _ in range(rng.randint(1, 3))],
                                        "mode": rng.choice(["plain", "plain", "inspect_first", "twice"])}))
        elif x < 0.87:
            ops.append(("abandon",))
        elif x < 0.95:
            ops.append(("reopen", {"schema": rng.randrange(len(OTHER_SCHEMAS) + 1), "codec": rng.choice(CODECS + ["no-such-codec"]),
                                   "meta": rng.choice([None, {"other": "1"}]), "marker": rng.choice([b"", b"\x01" * 16]),
                                   "flush_first": rng.random() < 0.7, "interval": rng.choice([1, 40, 10**6]),
                                   "position": rng.choice(POSITIONS)}))
        else:
            ops.append(("writer_fn", {"n": rng.randint(0, 4), "schema": rng.randrange(len(OTHER_SCHEMAS) + 1), "flush_first": rng.random() < 0.7,
                                     "position": rng.choice(POSITIONS)}))
    ops.append(("flush",))
    return ops


def family_schema(family):
    if family == "id":
        return ID_SCHEMA
    return {"null": ZERO_SCHEMAS[0], "record": ZERO_SCHEMAS[1], "fixed": ZERO_SCHEMAS[2]}[family]


INV = {"evals": 0, "active": False, "broken": None}


def install_invariant(fa_write):
    """icontract class invariant on Writer, applied from the harness."""
    try:
        import icontract
    except Exception:
        return False
    if INV["active"]:
        return True

    class InvariantBroken(Exception):
        pass

    def pending_matches_count(self):
        try:
            buf = self.io._fo.getvalue()
            count = self.block_count
            schema = self.schema
        except AttributeError:
            return True  # refactored internals: the invariant switches itself off
        INV["evals"] += 1
        try:
            node = getattr(self, "_vf_node", None)
            if node is None:
                js = _strip(schema)
                node, _ = RS.build(js)
                self._vf_node = node
            pos = 0
            for _ in range(count):
                _t, pos = RB.decode(node, buf, pos)
            ok = pos == len(buf)
        except RB.DecodeError:
            ok = False
        except Exception:
            return True
        if not ok and INV["broken"] is None:
            INV["broken"] = "pending buffer (%d bytes) does not decode into block_count=%d records" % (len(buf), count)
        return True  # record, never abort what it observes

    try:
        icontract.invariant(pending_matches_count, error=InvariantBroken)(fa_write.Writer)
        INV["active"] = True
    except Exception:
        return False
    return True


def _strip(s):
    if isinstance(s, dict):
        return {k: _strip(v) for k, v in s.items() if not k.startswith("__")}
    if isinstance(s, list):
        return [_strip(x) for x in s]
    return s


def run_history(sh, fa, rng, ops):
    from fastavro import write as faw

    Writer = faw.Writer
    ids = Ids()
    S = FlushedView()  # what a reader on another handle sees is the content as of the last flush()
    W = None
    header0 = None
    durable = []
    pending = []
    cfg0 = None
    family = None
    node = None
    kinds = []
    last_failed = False
    since_dump_failed = False
    reopens = 0
    info = {"ops": ops}

    def expected_of(rec):
        return RB.to_py(node, RC.from_datum(node, rec))

    def verify(step, flushed=True):
        data = S.flushed if flushed else S.getvalue()
        if flushed and data != S.getvalue():
            sh.violation("flush-did-not-reach-the-stream", "step %d (%s): after Writer.flush() %d of %d bytes have been flushed to the underlying stream"
                         % (step, ops[step][0], len(data), len(S.getvalue())), info)
            return False
        try:
            cont = RK.parse(data)
            trees = RK.records(cont, node)
            got = [RB.to_py(node, t) for t in trees]
        except (RK.ContainerError, RS.SchemaError) as e:
            sh.violation("stream-unreadable-after-flush", "step %d (%s): independent parser: %s" % (step, ops[step][0], e), info)
            return False
        if len(got) != len(durable) or not all(RC.same(a, b) for a, b in zip(got, durable)):
            ids_got = [r.get("id") if isinstance(r, dict) else r for r in got]
            ids_want = [r.get("id") if isinstance(r, dict) else r for r in durable]
            sh.violation("readback-differs", "step %d (%s): stream holds ids %s, submitted %s" % (step, ops[step][0], printable(ids_got, 300), printable(ids_want, 300)), info)
            return False
        st, got2 = guard(lambda: list(fa.reader(io.BytesIO(data))))
        if st == "exc" or len(got2) != len(durable) or not all(RC.same(a, b) for a, b in zip(got2, durable)):
            sh.violation("fastavro-reader-differs", "step %d: fastavro.reader gives %s" % (step, exc_name(got2) if st == "exc" else printable(got2[-2:], 200)), info)
            return False
        if data[: len(header0)] != header0 or cont.header_len != len(header0):
            sh.violation("header-changed", "step %d (%s): header bytes differ from those written at creation" % (step, ops[step][0]), info)
            return False
        if cont.codec != cfg0["codec"]:
            sh.violation("header-changed", "codec %r" % cont.codec, info)
            return False
        sh.count("flush_readbacks")
        return True

    for step, op in enumerate(ops):
        kind = op[0]
        kinds.append(kind)
        if kind == "new":
            cfg0 = op[1]
            family = cfg0["family"]
            js = family_schema(family)
            node, _ = RS.build(js)
            st, W = guard(Writer, S, copy.deepcopy(js), codec=cfg0["codec"], sync_interval=cfg0["interval"],
                          metadata=dict(cfg0["meta"]) if cfg0["meta"] else None, validator=cfg0["validator"],
                          sync_marker=cfg0["marker"])
            if st == "exc":
                sh.violation("writer-create-failed", exc_name(W), info)
                return
            header0 = S.getvalue()
            try:
                h = RK.parse_header(header0)
                if h.header_len != len(header0):
                    raise RK.ContainerError("header length")
            except RK.ContainerError as e:
                sh.violation("header-invalid", str(e), info)
                return
        elif W is None and kind in ("write", "write_bad", "flush", "write_block"):
            continue  # writer was abandoned and not yet reopened
        elif kind == "write":
            rec = good_record(rng, ids, family, op[1])
            st, err = guard(W.write, rec)
            if st == "exc":
                sh.violation("good-write-raised", "step %d: write of a conforming record raised %s" % (step, exc_name(err)), info)
                return
            pending.append(expected_of(rec))
            if since_dump_failed:
                sh.count("failed_then_ok_same_block")
            sh.count("writes")
        elif kind == "write_bad":
            rec = bad_record(rng, ids, op[1])
            st, err = guard(W.write, rec)
            if st == "ok":
                sh.count("bad_write_accepted_history_dropped")
                return  # unspecified territory: drop the history, no verdict
            sh.count("failed_writes")
            sh.count("failed_" + op[1])
            since_dump_failed = True
        elif kind == "flush":
            st, err = guard(W.flush)
            if st == "exc":
                sh.violation("flush-raised", "step %d: %s" % (step, exc_name(err)), info)
                return
            durable.extend(pending)
            pending = []
            since_dump_failed = False
            if not verify(step):
                return
        elif kind == "write_block":
            d = op[1]
            donor_recs = [good_record(rng, ids, family, "small") for _ in range(sum(d["counts"]))]
            enc = [RB.encode(node, RC.from_datum(node, r)) for r in donor_recs]
            donor, _b = RK.write(family_schema(family), enc, d["counts"], codec=d["codec"], sync=b"\x09" * 16)
            if pending:
                sh.count("write_block_with_pending")

            mode = d.get("mode", "plain")

            def copy_blocks():
                for blk in fa.block_reader(io.BytesIO(donor)):
                    if mode == "inspect_first":
                        list(blk)  # looking at a block's records before copying it
                    W.write_block(blk)
                    if mode == "twice":
                        W.write_block(blk)

            st, err = guard(copy_blocks)
            if st == "exc":
                sh.violation("write_block-raised", "step %d: %s" % (step, exc_name(err)), info)
                return
            durable.extend(pending)
            pending = []
            if mode == "twice":
                i0 = 0
                for c in d["counts"]:
                    durable.extend(expected_of(r) for r in donor_recs[i0:i0 + c])
                    durable.extend(expected_of(r) for r in donor_recs[i0:i0 + c])
                    i0 += c
            else:
                durable.extend(expected_of(r) for r in donor_recs)
            sh.count("write_block_mode_" + mode)
            since_dump_failed = False
            sh.count("write_blocks")
            # write_block does not flush the stream object: the stream's own content is judged
            if not verify(step, False):
                return
        elif kind == "abandon" or kind in ("reopen", "writer_fn"):
            arg = op[1] if len(op) > 1 else {}
            if kind != "abandon" and W is not None and arg.get("flush_first"):
                st, err = guard(W.flush)
                if st == "exc":
                    sh.violation("flush-raised", "step %d: %s" % (step, exc_name(err)), info)
                    return
                durable.extend(pending)
                pending = []
            if pending or kind == "abandon":
                # which prefix of pending was auto-dumped?  ask the independent parser
                try:
                    cont = RK.parse(S.getvalue())
                    got = [RB.to_py(node, t) for t in RK.records(cont, node)]
                except (RK.ContainerError, RS.SchemaError) as e:
                    sh.violation("stream-unreadable-after-abandon", "step %d: %s" % (step, e), info)
                    return
                want = durable + pending
                k = len(got) - len(durable)
                if k < 0 or k > len(pending) or not all(RC.same(a, b) for a, b in zip(got, want)):
                    sh.violation("abandoned-stream-not-a-prefix", "step %d: stream holds %d records, durable %d pending %d" % (step, len(got), len(durable), len(pending)), info)
                    return
                durable = got
                pending = []
                sh.count("abandons")
            W = None
            since_dump_failed = False
            if kind == "abandon":
                continue
            # ---- reopen for append
            if not durable and len(S.getvalue()) == len(header0):
                sh.count("append_after_empty_flush")
            si = arg["schema"]
            other = family_schema(family) if si >= len(OTHER_SCHEMAS) else OTHER_SCHEMAS[si]
            reopens += 1
            where = arg.get("position", "end")
            if where != "end" and S.getvalue():
                S.seek({"magic": 4, "header": len(header0), "mid": max(1, len(S.getvalue()) // 2), "one": 1}[where])
                sh.count("append_handle_not_at_end")
            if kind == "reopen":
                st, W = guard(Writer, S, copy.deepcopy(other), codec=arg["codec"], sync_interval=arg["interval"],
                              metadata=dict(arg["meta"]) if arg["meta"] else None, sync_marker=arg["marker"])
                if st == "exc":
                    sh.violation("append-open-failed", "step %d: reopening for append (schema arg %s, codec arg %r) raised %s" % (step, printable(other, 80), arg["codec"], exc_name(W)), info)
                    return
                sh.count("reopens")
            else:
                recs = [good_record(rng, ids, family, "small") for _ in range(arg["n"])]
                st, err = guard(fa.writer, S, copy.deepcopy(other), recs)
                if st == "exc":
                    sh.violation("append-writer-failed", "step %d: writer() in append mode raised %s" % (step, exc_name(err)), info)
                    return
                durable.extend(expected_of(r) for r in recs)
                sh.count("writer_fn_appends")
                W = None
                if not verify(step):
                    return
        if INV["broken"] and "invariant" not in info:
            # auxiliary, pinpointing only: attached to a later read-back verdict
            info["invariant"] = "first broken after step %d (%s): %s" % (step, kind, INV["broken"])
            sh.count("invariant_broken_observations")
    sh.count("histories")
    if reopens >= 2:
        sh.count("histories_two_reopens")
    return kinds


def run_shard(spec):
    import fastavro as fa
    from fastavro import write as faw

    sh = Shard(PID, spec)
    active = install_invariant(faw)
    rng = rng_for("C07", spec["seed"], spec["shard"])
    if "replay" in spec:
        import base64, pickle

        info = pickle.loads(base64.b64decode(spec["replay"]["pickle"]))
        for k in range(4):
            sh.case(None)
            run_history(sh, fa, rng_for("replay", k), info["ops"])
        return sh.result()
    i = 0
    while i < spec["n"] and not sh.out_of_time():
        i += 1
        ops = gen_history(rng)
        kinds = [o[0] for o in ops]
        sh.case(h64(tuple(kinds), ops[0][1]["codec"], ops[0][1]["interval"], ops[0][1]["family"]),
                len(set(kinds) - {"write", "new"}) >= 2)
        INV["broken"] = None
        sh.run_case(run_history, sh, fa, rng, ops)
        if i % 150 == 1:
            sh.sample({"history": [o[0] if len(o) == 1 else [o[0], o[1] if not isinstance(o[1], dict) else {k: (v.hex() if isinstance(v, bytes) else v) for k, v in o[1].items()}] for o in ops]})
    sh.counters["invariant_evaluations"] = INV["evals"]
    sh.counters["invariant_active_shards"] = 1 if active else 0
    return sh.result()

"""C05 — container layout interoperates both ways with an independent
implementation; is_avro; block_reader tiling."""
import copy
import glob
import io
import json
import os

from ..harness import Shard, rng_for, h64, schema_shape, printable, guard, exc_name
from ..gen.cases import gen_case
from ..gen.datum import DatumGen
from ..ref import schema as RS, binary as RB, conform as RC, container as RK, pcf as RP
from ..mon.streams import ReadOnlyStream, TellStream

PID = "C05"
LEVEL = "exploration"
RULE = (
    "(a) files written by fastavro.writer under random configurations are parsed by the "
    "independent container parser (magic, metadata map, schema JSON, codec key, 16-byte sync "
    "equal to the one supplied, per block: count, byte length, payload inflated by the stdlib "
    "codec, exactly `count` records consuming the whole payload, same sync, no trailing bytes) "
    "and the records compared; (b) files produced by the independent writer (any block "
    "partition incl. empty blocks anywhere, header map in 1-4 chunks in positive or negative "
    "form, codec key present/absent, every codec, extra metadata) are read by reader and "
    "block_reader: records equal, blocks tile the file; (c) the Java-written fixtures in "
    "tests/avro-files are read by both sides; (d) is_avro == startswith(b'Obj\\x01') on random "
    "byte strings, every prefix of the magic, near misses, real files, buffers and paths. "
    "distinct = hash(direction, schema shape, partition signature, header chunking, codec); "
    "non-trivial = >=1 record or a non-default header/partition feature."
)
ASSUMPTIONS = [
    "bytes after the end of a raw-deflate stream inside a block payload are recorded, not judged (A6)",
    "fixtures using snappy or the error/request schema kinds are skipped by the reference side (counted)",
]
N = {"quick": 48000, "thorough": 800000}
TIME_LIMIT = {"quick": 40, "thorough": 560}
SHARDS = 16
CODECS = ["null", "deflate", "bzip2", "xz"]
REACH = {
    "quick": {"fa_files_appended": 300, "fa_files_block_copied": 100, "failed_write_layouts": 16, "blocks_over_64k": 16, "fa_files_parsed": 600, "ref_files_read": 600, "files_with_empty_blocks": 50,
              "header_multi_chunk": 50, "codec_key_absent": 50, "is_avro_checked": 500,
              "blocks_tiled": 500, "fixtures_compared": 10},
    "thorough": {"fa_files_parsed": 10000, "ref_files_read": 10000},
}


def plan(tier, seed):
    n = N[tier]
    return [{"shard": i, "n": n // SHARDS, "seed": seed, "boundary": i == 0, "tier": tier,
             "time_limit": TIME_LIMIT[tier]} for i in range(SHARDS)]


def gen_records(rng, case, nrec):
    node = case["node"]
    recs = [case["datum"]]
    while len(recs) < nrec:
        g = DatumGen(rng, size_budget=60, big=0.0)
        d = g.gen(node)
        if RC.float_out_of_range(node, d):
            continue
        try:
            RC.from_datum(node, d)
        except RecursionError:
            continue
        recs.append(d)
    return recs[:nrec]


# ----------------------------------------------------------- (a) fa -> ref
def fa_to_ref(sh, fa, rng, case, recs):
    js, node = case["schema"], case["node"]
    codec = rng.choice(CODECS)
    marker = bytes(rng.getrandbits(8) for _ in range(16))
    interval = rng.choice([0, 1, 10, 50, 200, 16000])
    meta = rng.choice([None, {"user": "méta"}, {"a": "1", "b": "2"},
                       # a dict carried over from another file's reader.metadata holds the reserved keys
                       {"avro.codec": rng.choice(CODECS), "origin": "copied"}, {"avro.codec": "null", "avro.schema": '"long"', "k": "v"}])
    # the schema as the caller has it: raw JSON, or the result of parse_schema (the header must be
    # the same self-contained schema JSON either way)
    as_parsed = rng.random() < 0.4
    cfg = {"codec": codec, "interval": interval, "meta": meta, "marker": marker, "parsed": as_parsed}
    info = {"dir": "fa->ref", "schema": js, "records": recs, "cfg": cfg}
    sh.case(h64("a", schema_shape(js), min(len(recs), 4), codec, interval), True)
    fo = io.BytesIO()

    def schema_arg():
        return fa.parse_schema(copy.deepcopy(js)) if as_parsed else copy.deepcopy(js)

    if as_parsed:
        sh.count("fa_files_from_parsed_schema")
    split = rng.randint(0, len(recs)) if rng.random() < 0.25 else None
    first = list(recs) if split is None else list(recs[:split])
    if split is None and recs and rng.random() < 0.12:
        # the file is assembled by copying the blocks of a donor file (Writer.write_block), some
        # of them looked at before they are copied
        def copy_blocks():
            from fastavro.write import Writer
            donor = io.BytesIO()
            fa.writer(donor, copy.deepcopy(js), list(recs), codec=rng.choice(CODECS), sync_interval=rng.choice([0, 30, 16000]))
            donor.seek(0)
            w = Writer(fo, schema_arg(), codec=codec, sync_interval=interval, metadata=dict(meta) if meta else None, sync_marker=marker)
            for k, block in enumerate(fa.block_reader(donor)):
                if k % 2 == 0:
                    it = iter(block)
                    next(it, None)
                    if k % 4 == 0:
                        list(it)
                w.write_block(block)
            w.flush()
        cfg["block_copy"] = True
        st, err = guard(copy_blocks)
        sh.count("fa_files_block_copied")
    else:
        st, err = guard(fa.writer, fo, schema_arg(), first, codec=codec, sync_interval=interval,
                        metadata=dict(meta) if meta else None, sync_marker=marker,
                        codec_compression_level=rng.choice([None, 1, 9]) if codec == "deflate" else None)
    if st == "exc":
        sh.violation("writer-raised", exc_name(err), info)
        return
    if split is not None:
        # the rest is appended by a second call (stream left at its end): the file keeps its own
        # header, codec and marker whatever the second call passes
        kw = rng.choice([{}, {"codec": rng.choice(CODECS)}, {"codec": codec, "sync_interval": 1},
                         {"sync_marker": b"0123456789abcdef"}, {"metadata": {"avro.codec": rng.choice(CODECS), "late": "x"}}])
        cfg["append"] = {"at": split, "kw": kw}
        st, err = guard(fa.writer, fo, schema_arg(), list(recs[split:]), **kw)
        if st == "exc":
            sh.violation("writer-raised", "appending to the file just written: %s" % exc_name(err), info)
            return
        sh.count("fa_files_appended")
    data = fo.getvalue()
    try:
        cont = RK.parse(data)
    except RK.ContainerError as e:
        sh.violation("layout-invalid", "independent parser rejects the file: %s" % e, info)
        return
    if cont.sync != marker:
        sh.violation("sync-marker-differs", "header sync %s != supplied %s" % (cont.sync.hex(), marker.hex()), info)
        return
    if not cont.codec_key_present or cont.codec != codec:
        sh.violation("codec-name-wrong", "avro.codec in header = %r (present=%s), wrote with %r" % (cont.codec, cont.codec_key_present, codec), info)
        return
    try:
        if RP.pcf(cont.schema) != RP.pcf(js):
            sh.violation("header-schema-differs", "canonical form of the header schema differs: %s" % RP.pcf(cont.schema)[:300], info)
            return
        hnode, _ = RS.build(cont.schema)
    except Exception as e:
        sh.violation("header-schema-invalid", "schema JSON in the header is not a valid schema: %s" % exc_name(e), info)
        return
    for k, v in (meta or {}).items():
        if k.startswith("avro."):
            continue  # reserved keys belong to the format: codec and schema were checked above
        if cont.meta.get(k) != v.encode():
            sh.violation("metadata-lost", "header metadata %r = %r" % (k, cont.meta.get(k)), info)
            return
    try:
        trees = RK.records(cont, hnode)
    except RK.ContainerError as e:
        sh.violation("block-undecodable", str(e), info)
        return
    if sum(b.count for b in cont.blocks) != len(recs) or len(trees) != len(recs):
        sh.violation("record-count-differs", "blocks announce %d records, %d written" % (sum(b.count for b in cont.blocks), len(recs)), info)
        return
    for d, t in zip(recs, trees):
        if not RC.same(RB.to_py(hnode, t), RC.normalise(node, d, t)):
            sh.violation("independent-parser-reads-differently", "%s vs %s" % (printable(RB.to_py(hnode, t), 200), printable(RC.normalise(node, d, t), 200)), info)
            return
    sh.count("fa_files_parsed")
    sh.count("fa_blocks_parsed", len(cont.blocks))
    sh.count("deflate_unused_tail_bytes", sum(b.unused for b in cont.blocks))
    sh.count("codec_a_" + codec)


# ----------------------------------------------------------- (b) ref -> fa
def random_partition(rng, n):
    parts = []
    left = n
    while left > 0:
        if rng.random() < 0.25:
            parts.append(0)
            continue
        k = rng.randint(1, left)
        parts.append(k)
        left -= k
    for _ in range(rng.choice([0, 0, 1, 2])):
        parts.insert(rng.randrange(len(parts) + 1), 0)
    return parts


def ref_to_fa(sh, fa, rng, case, recs, partition=None, codec=None):
    js, node = case["schema"], case["node"]
    codec_key = rng.random() < 0.7 or codec is not None
    codec = codec or (rng.choice(CODECS) if codec_key else "null")
    enc = []
    expected = []
    for d in recs:
        t = RC.from_datum(node, d)
        enc.append(RB.encode(node, t))
        expected.append(RB.to_py(node, t))
    partition = partition or random_partition(rng, len(recs))
    if max(partition, default=0) and max(sum(len(e) for e in enc[sum(partition[:i]):sum(partition[:i + 1])]) for i in range(len(partition))) > 65536:
        sh.count("blocks_over_64k")
    extra = rng.choice([{}, {"zzz": "1"}, {"a": "x", "b": "y", "c": "é"}])
    n_entries = 1 + (1 if codec_key else 0) + len(extra)
    nch = rng.randint(1, min(4, n_entries))
    cuts = sorted(rng.sample(range(1, n_entries), nch - 1)) if nch > 1 else []
    chunks = [(b - a, rng.random() < 0.5) for a, b in zip([0] + cuts, cuts + [n_entries])]
    sync = bytes(rng.getrandbits(8) for _ in range(16))
    # the encoder settings another writer may have used
    level = rng.choice({"deflate": [None, 0, 1, 9], "bzip2": [None, 1, 9],
                        "xz": [None, 0, 8, "bigdict", "none", "crc32", "sha256"]}.get(codec, [None]))
    data, bounds = RK.write(js, enc, partition, codec=codec, sync=sync, meta=extra,
                            header_chunks=chunks, codec_key=codec_key, level=level)
    if level is not None:
        sh.count("foreign_encoder_settings")
    if level == "bigdict":
        sh.count("xz_64MiB_dictionary")
    cfg = {"codec": codec, "codec_key": codec_key, "partition": partition, "chunks": chunks, "level": level}
    info = {"dir": "ref->fa", "schema": js, "records": recs, "cfg": cfg, "file": data.hex() if len(data) < 400 else None}
    sh.case(h64("b", schema_shape(js), tuple(min(p, 3) for p in partition[:6]), tuple(chunks), codec, codec_key), True)
    if 0 in partition:
        sh.count("files_with_empty_blocks")
    if len(chunks) > 1:
        sh.count("header_multi_chunk")
    if any(neg for _n, neg in chunks):
        sh.count("header_negative_chunk")
    if not codec_key:
        sh.count("codec_key_absent")

    def read_all(stream):
        rd = fa.reader(stream)
        return rd, list(rd)

    stream = ReadOnlyStream(data) if rng.random() < 0.5 else io.BytesIO(data)
    st, res = guard(read_all, stream)
    if st == "exc":
        sh.violation("valid-file-rejected", "reader raised %s on a layout-valid file" % exc_name(res), info)
        return
    rd, got = res
    if len(got) != len(expected) or not all(RC.same(a, b) for a, b in zip(got, expected)):
        sh.violation("valid-file-misread", "reader returned %d records %s, file holds %d: %s" % (len(got), printable(got, 200), len(expected), printable(expected, 200)), info)
        return
    if rd.codec != codec:
        sh.violation("codec-misreported", "reader.codec=%r for a file with codec %r (key present: %s)" % (rd.codec, codec, codec_key), info)
        return
    for k, v in extra.items():
        if rd.metadata.get(k) != v:
            sh.violation("metadata-misreported", "%r -> %r" % (k, rd.metadata.get(k)), info)
            return

    def read_blocks(stream):
        br = fa.block_reader(stream)
        return [(b.offset, b.size, b.num_records, list(b)) for b in br]

    stream = TellStream(data) if rng.random() < 0.5 else io.BytesIO(data)
    st, blocks = guard(read_blocks, stream)
    if st == "exc":
        sh.violation("valid-file-rejected-by-block-reader", exc_name(blocks), info)
        return
    want = [(bounds[i], bounds[i + 1] - bounds[i], partition[i]) for i in range(len(partition))]
    have = [(o, s, n) for o, s, n, _r in blocks]
    if have != want:
        sh.violation("blocks-do-not-tile", "block_reader reports (offset,size,count) %s, layout is %s (file length %d)" % (have[:8], want[:8], len(data)), info)
        return
    flat = [r for _o, _s, _n, rs in blocks for r in rs]
    if len(flat) != len(expected) or not all(RC.same(a, b) for a, b in zip(flat, expected)):
        sh.violation("block-iteration-differs", "records from blocks %s" % printable(flat, 200), info)
        return
    if blocks:
        if have[0][0] != bounds[0] or have[-1][0] + have[-1][1] != len(data):
            sh.violation("blocks-do-not-tile", "first offset/last end wrong", info)
            return
    sh.count("ref_files_read")
    sh.count("blocks_tiled", len(blocks))
    sh.count("codec_b_" + codec)


def failed_write_layout(sh, fa, codec, k):
    from fastavro.write import Writer

    js = {"type": "record", "name": "Row", "fields": [{"name": "id", "type": "long"}, {"name": "note", "type": "string"},
                                                      {"name": "tags", "type": {"type": "array", "items": "string"}}, {"name": "n", "type": "long"}]}
    node, _e = RS.build(js)
    good = [{"id": i, "note": "n%d" % i, "tags": [], "n": -i} for i in range(6)]
    bads = [{"id": 99, "note": "x" * (50 + 400 * k), "tags": ["t"] * 20, "n": "not-a-long"},
            {"id": 98, "note": "y" * 30, "tags": ["a", 5], "n": 1},
            {"id": 97, "note": "z" * 3000, "tags": [], "n": 1.5e300 if k % 2 else None}]
    fo = io.BytesIO()
    w = Writer(fo, js, codec=codec, sync_interval=10**6 if k % 2 else 64, sync_marker=b"\x21" * 16)
    written = []
    info = {"dir": "fa->ref", "schema": js, "records": good, "cfg": {"codec": codec, "failed_writes": True}}
    for i, g in enumerate(good):
        if i in (1, 2, 4):
            st, err = guard(w.write, bads[(i + k) % 3])
            if st == "ok":
                return  # this tree accepts the record: not the scenario
            sh.count("failed_writes_before_layout_check")
        w.write(g)
        written.append(g)
        if i == 3:
            w.flush()
    w.flush()
    try:
        cont = RK.parse(fo.getvalue())
        trees = RK.records(cont, node)
    except RK.ContainerError as e:
        sh.violation("layout-invalid", "after failed writes the independent parser rejects the file: %s" % e, info)
        return
    got = [RB.to_py(node, t) for t in trees]
    if got != written:
        sh.violation("independent-parser-reads-differently", "after failed writes: %s" % printable(got, 200), info)
        return
    sh.count("failed_write_layouts")


# ---------------------------------------------------------- (c) fixtures
def fixtures(sh, fa):
    root = os.path.join(os.environ.get("VERIF_REPO", "/repo"), "tests", "avro-files")
    for path in sorted(glob.glob(os.path.join(root, "*.avro"))):
        with open(path, "rb") as f:
            data = f.read()
        name = os.path.basename(path)
        sh.case(h64("fixture", name), True)
        try:
            cont = RK.parse(data)
            node, _ = RS.build(cont.schema)
            trees = RK.records(cont, node)
            want = [RB.to_py(node, t) for t in trees]
        except (RK.ContainerError, RS.SchemaError, KeyError, TypeError) as e:
            sh.count("fixtures_skipped_by_reference")
            continue
        if any(L for L in [n.logical for n in RS.walk(node)]):
            # logical types convert on the fastavro side; compare counts only
            st, got = guard(lambda: list(fa.reader(io.BytesIO(data))))
            if st == "exc" or len(got) != len(want):
                sh.violation("fixture-differs", "%s: %s" % (name, exc_name(got) if st == "exc" else "count"), {"fixture": name})
            else:
                sh.count("fixtures_compared")
            continue
        st, got = guard(lambda: list(fa.reader(io.BytesIO(data))))
        if st == "exc":
            sh.violation("fixture-rejected", "%s: %s" % (name, exc_name(got)), {"fixture": name})
            continue
        if len(got) != len(want) or not all(RC.same(a, b) for a, b in zip(got, want)):
            sh.violation("fixture-differs", "%s: fastavro and the independent parser disagree" % name, {"fixture": name})
            continue
        st, blocks = guard(lambda: [(b.offset, b.size, b.num_records) for b in fa.block_reader(io.BytesIO(data))])
        want_b = [(b.offset, b.end - b.offset, b.count) for b in cont.blocks]
        if st == "exc" or blocks != want_b:
            sh.violation("fixture-blocks-differ", "%s: %s" % (name, printable(blocks, 200)), {"fixture": name})
            continue
        sh.count("fixtures_compared")
        sh.count("fixture_records", len(want))


# ------------------------------------------------------------ (d) is_avro
def is_avro_cases(sh, fa, rng, scratch, n):
    magic = b"Obj\x01"
    fixed = [b"", b"O", b"Ob", b"Obj", magic, magic + b"\x00", b"Obj\x00", b"obj\x01", b"Obj\x02", b"\x00Obj\x01",
             b"OBJ\x01", magic * 2, b"Obj\x01" + b"x" * 100, b"Ob\x01j", b" Obj\x01"]
    items = list(fixed)
    for _ in range(n):
        ln = rng.choice([0, 1, 2, 3, 4, 5, 8, 40])
        b = bytes(rng.getrandbits(8) for _ in range(ln))
        if rng.random() < 0.4:
            k = rng.randint(0, 4)
            b = magic[:k] + b
        if rng.random() < 0.1 and len(b) >= 4:
            j = rng.randrange(4)
            b = (magic[:j] + bytes([magic[j] ^ (1 << rng.randrange(8))]) + magic[j + 1:]) + b
        items.append(b)
    for k, b in enumerate(items):
        want = b[:4] == magic
        sh.case(h64("is_avro", b[:6], len(b) > 4), True)
        st, got = guard(fa.is_avro, io.BytesIO(b))
        if st == "exc" or got is not want:
            sh.violation("is_avro-wrong", "is_avro(buffer %r) = %r, expected %r" % (b[:12], got, want), {"bytes": b, "as": "buffer"})
            return
        if k % 3 == 0:
            path = os.path.join(scratch, "isavro-%d.bin" % k)
            with open(path, "wb") as f:
                f.write(b)
            st, got = guard(fa.is_avro, path)
            os.unlink(path)
            if st == "exc" or got is not want:
                sh.violation("is_avro-wrong", "is_avro(path with %r) = %r, expected %r" % (b[:12], got, want), {"bytes": b, "as": "path"})
                return
        sh.count("is_avro_checked")
        sh.count("is_avro_true" if want else "is_avro_false")


def run_shard(spec):
    import fastavro as fa

    sh = Shard(PID, spec)
    scratch = os.path.join(os.environ["VF_SCRATCH"], "io5-%d" % spec["shard"])
    os.makedirs(scratch, exist_ok=True)
    rng = rng_for("C05", spec["seed"], spec["shard"])
    if "replay" in spec:
        import base64, pickle

        info = pickle.loads(base64.b64decode(spec["replay"]["pickle"]))
        if "fixture" in info:
            fixtures(sh, fa)
        elif "bytes" in info:
            is_avro_cases(sh, fa, rng, scratch, 50)
            sh.case(None)
            b = info["bytes"]
            if fa.is_avro(io.BytesIO(b)) is not (b[:4] == b"Obj\x01"):
                sh.violation("is_avro-wrong", "replayed", info)
        else:
            node, env = RS.build(info["schema"])
            case = {"schema": info["schema"], "node": node, "datum": None}
            for k in range(30):
                r2 = rng_for("replay", k)
                (fa_to_ref if info["dir"] == "fa->ref" else ref_to_fa)(sh, fa, r2, case, info["records"])
        return sh.result()
    if spec.get("boundary"):
        sh.run_case(fixtures, sh, fa)
    # a Writer that survives failed writes: whatever the failed records left behind must not show
    # in the block payload an independent parser sees (records consume the payload exactly)
    sh.run_case(failed_write_layout, sh, fa, CODECS[spec["shard"] % len(CODECS)], spec["shard"])
    # blocks far larger than any internal buffer, every codec (one configuration per shard)
    big_schema = {"type": "record", "name": "Big", "fields": [{"name": "i", "type": "long"}, {"name": "s", "type": "string"}]}
    big_node, _e = RS.build(big_schema)
    k = spec["shard"]
    codec = CODECS[k % len(CODECS)]
    if k < 8:
        recs = [{"i": j * 7919, "s": "row-%d-%s" % (j, "x" * (j % 40))} for j in range(4000 + 500 * k)]
        partition = [len(recs)] if k % 2 else [1, len(recs) - 2, 1]
    else:
        recs = [{"i": 1, "s": "é" * (40000 * (k - 7))}, {"i": 2, "s": ""}]
        partition = [1, 1] if k % 2 else [2]
    sh.run_case(ref_to_fa, sh, fa, rng, {"schema": big_schema, "node": big_node}, recs, partition, codec)
    sh.run_case(is_avro_cases, sh, fa, rng, scratch, 60 if spec["tier"] == "quick" else 2000)
    i = 0
    while i < spec["n"] and not sh.out_of_time():
        i += 1
        case = gen_case(rng, dict(bytes_defaults=0.3, null_ns_inside=0.05, union_default_any=True), dict(size_budget=80, big=0.01))
        recs = gen_records(rng, case, rng.choice([0, 1, 2, 3, 5, 9, 20]))
        sh.feat(case["features"])
        if i % 2:
            sh.run_case(fa_to_ref, sh, fa, rng, case, recs)
        else:
            sh.run_case(ref_to_fa, sh, fa, rng, case, recs)
        if i % 60 == 1:
            sh.sample({"schema": case["schema"], "n_records": len(recs)})
    return sh.result()

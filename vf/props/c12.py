"""C12 — parsing is idempotent; raw, parsed and piecewise-parsed schemas
behave alike for every public operation."""
import copy
import io
import itertools
import json
import os
import pickle
import random
import subprocess
import sys

from ..harness import Shard, rng_for, h64, schema_shape, printable, guard, exc_name
from ..gen.cases import gen_case
from ..ref import schema as RS, conform as RC
from ..ref.schema import PRIMS, split_name
from .. import known

PID = "C12"
LEVEL = "exploration"
RULE = (
    "for each generated schema and each subset (all 2^k, k<=4) of its separable named types the "
    "schema is given in three forms: raw; parsed (parse_schema output, also parsed twice); "
    "piecewise (the chosen types parsed first, dependencies first, against one shared dictionary, "
    "then the remainder that only refers to them by name). Every public operation is run under "
    "each form on the same data and the observations (bytes / values / text / exception class) "
    "must be equal: schemaless_writer+reader, writer+reader (the file re-read from its bytes alone, "
    "a sample also in a fresh interpreter), json_writer+json_reader, validate, "
    "to_parsing_canonical_form, fingerprint, generate_many under a fixed random.seed; "
    "parse_schema(parsed) must return the same object. distinct = hash(schema shape, split subset, "
    "operation); non-trivial = non-empty split or operation != parse."
)
ASSUMPTIONS = [
    "piecewise as in parse_schema's docstring: every split type is parsed with the dictionary later used for the remainder (A22)",
    "a type is separable when its definition refers to no type defined outside it other than other split types",
]
N = {"quick": 1600, "thorough": 64000}
TIME_LIMIT = {"quick": 30, "thorough": 600}
SHARDS = 16
REACH = {
    "quick": {"forms_compared": 10000, "piecewise_forms": 1500, "nonempty_splits": 1500, "idempotence_checked": 800,
              "container_reread": 1000, "fresh_process_rereads": 100},
    "thorough": {"forms_compared": 500000},
}
OPS = ["binary", "container", "json", "validate", "pcf", "fingerprint", "generate", "resolve", "named_reads", "tuple_data"]


def _rec(name, ns, field, ftype="double", default=0.0):
    return {"type": "record", "name": name, "namespace": ns, "fields": [{"name": field, "type": ftype, "default": default}]}


# shapes the random generator reaches rarely: the same short name in two namespaces inside one
# union, names that are prefixes of one another, a type used from two separately parsed pieces
TARGETED = [
    ({"type": "record", "name": "Log", "namespace": "x", "fields": [
        {"name": "r", "type": [_rec("Reading", "lab", "celsius"), _rec("Reading", "field", "kelvin")]},
        {"name": "again", "type": ["null", "field.Reading", "lab.Reading"], "default": None}]},
     [{"r": {"kelvin": 3.0}, "again": {"celsius": 1.0}}, {"r": {"celsius": 2.0}, "again": {"kelvin": 4.0}}, {"r": {"kelvin": 5.0}}]),
    ({"type": "record", "name": "Pick", "fields": [
        {"name": "e", "type": [{"type": "enum", "name": "Level", "namespace": "a", "symbols": ["LO", "HI"]},
                               {"type": "enum", "name": "Level", "namespace": "b", "symbols": ["HI", "LO", "MID"]}]},
        {"name": "f", "type": {"type": "map", "values": ["a.Level", "b.Level"]}}]},
     [{"e": "MID", "f": {"k": "LO"}}, {"e": ("b.Level", "LO"), "f": {"k": ("b.Level", "HI"), "j": "HI"}}]),
    ({"type": "record", "name": "Pair", "namespace": "ns", "fields": [
        {"name": "first", "type": {"type": "record", "name": "Item", "fields": [
            {"name": "kind", "type": {"type": "enum", "name": "ItemKind", "symbols": ["A", "B"]}, "default": "A"},
            {"name": "n", "type": "int", "default": 0}]}},
        {"name": "second", "type": "ns.Item"},
        {"name": "kinds", "type": {"type": "array", "items": "ItemKind"}, "default": []}]},
     [{"first": {"kind": "B", "n": 1}, "second": {"n": 2}, "kinds": ["A", "B"]}, {"first": {}, "second": {"kind": "B"}}]),
    # string defaults of unions next to named types they are not meant for (another size, not a
    # symbol); the named types are defined inside those unions, so only the piecewise form has references there
    ({"type": "record", "name": "Cfg", "namespace": "d", "fields": [
        {"name": "u", "type": [{"type": "fixed", "name": "F6", "size": 6}, "string"], "default": "ab"},
        {"name": "v", "type": ["null", {"type": "enum", "name": "Lvl", "symbols": ["LO", "HI"]}, "string"], "default": "neither"},
        {"name": "id", "type": "F6"}, {"name": "lvl", "type": "d.Lvl"},
        {"name": "w", "type": ["d.Lvl", "bytes"], "default": "HI"},
        {"name": "x", "type": ["d.F6", "bytes"], "default": "abcdef"}]},
     [{"id": b"123456", "lvl": "HI"}, {"id": b"abcdef", "lvl": "LO", "u": "s", "v": "LO", "w": b"b", "x": b"x"}]),
    # a null-namespace record nested in a namespaced one, below a non-record top level (parsing the
    # parsed form again must not move it, and what it defines, into the enclosing namespace)
    ({"type": "array", "items": {"type": "record", "name": "Outer", "namespace": "geo", "fields": [
        {"name": "p", "type": {"type": "record", "name": "Point", "namespace": "", "fields": [
            {"name": "x", "type": "int"}, {"name": "k", "type": {"type": "enum", "name": "Kind", "symbols": ["A", "B"]}},
            {"name": "k2", "type": "Kind"}, {"name": "next", "type": ["null", "Point"], "default": None}]}},
        {"name": "n", "type": "int", "default": 0}]}},
     [[{"p": {"x": 1, "k": "A", "k2": "B", "next": {"x": 2, "k": "B", "k2": "A"}}}]]),
    ({"type": "map", "values": ["null", {"type": "record", "name": "Outer", "namespace": "geo", "fields": [
        {"name": "p", "type": {"type": "record", "name": "Point", "namespace": "", "fields": [
            {"name": "x", "type": "int"}, {"name": "more", "type": {"type": "array", "items": "Point"}, "default": []}]}}]}]},
     [{"a": {"p": {"x": 1, "more": [{"x": 2}]}}, "b": None}]),
    ({"type": "record", "name": "Hand", "namespace": "demo", "fields": [
        {"name": "top", "type": {"type": "record", "name": "Card", "fields": [
            {"name": "suit", "type": {"type": "enum", "name": "Suit", "symbols": ["S", "H"]}}, {"name": "rank", "type": "int"}]}},
        {"name": "trump", "type": "Suit"},
        {"name": "rest", "type": {"type": "array", "items": "Card"}}]},
     [{"top": {"suit": "H", "rank": 3}, "trump": "S", "rest": [{"suit": "S", "rank": 1}]}]),
    # a top level of the kind "error" (a record in everything but the keyword) whose field types can be parsed separately
    ({"type": "error", "name": "Failure", "namespace": "rpc", "fields": [
        {"name": "code", "type": {"type": "enum", "name": "Code", "symbols": ["E1", "E2"]}},
        {"name": "where", "type": {"type": "record", "name": "Where", "fields": [{"name": "line", "type": "int"}, {"name": "c", "type": "Code"}]}},
        {"name": "also", "type": ["null", "rpc.Where"], "default": None}]},
     [{"code": "E2", "where": {"line": 3, "c": "E1"}}, {"code": "E1", "where": {"line": 0, "c": "E2"}, "also": {"line": 1, "c": "E1"}}]),
    # two-element sequences as union values inside a type that only the piecewise form reaches by name
    # (handed over as tuples with the tuple notation switched off, see tuple_data)
    ({"type": "record", "name": "Doc", "namespace": "t", "fields": [
        {"name": "head", "type": {"type": "record", "name": "Span", "fields": [
            {"name": "range", "type": ["null", {"type": "array", "items": "int"}]},
            {"name": "tags", "type": {"type": "map", "values": ["string", {"type": "array", "items": "string"}]}}]}},
        {"name": "n", "type": "int", "default": 0}]},
     [{"head": {"range": [3, 4], "tags": {"k": ["a", "b"], "l": "s"}}}, {"head": {"range": None, "tags": {"m": ["x", "y"]}}, "n": 2}]),
]


def plan(tier, seed):
    n = N[tier]
    return [{"shard": i, "n": n // SHARDS, "seed": seed, "tier": tier, "time_limit": TIME_LIMIT[tier], "witness": i == 0}
            for i in range(SHARDS)]


# ------------------------------------------------------------ splitting
def named_defs(js):
    """fullname -> (definition json, namespace it sits in, path) in document order."""
    out = {}

    def walk(n, ns, path):
        if isinstance(n, list):
            for i, b in enumerate(n):
                walk(b, ns, path + (i,))
        elif isinstance(n, dict):
            t = n.get("type")
            if t in ("record", "error", "enum", "fixed"):
                space, full = split_name(n, ns)
                out[full] = (n, ns, path)
                if t in ("record", "error"):
                    for i, f in enumerate(n.get("fields", [])):
                        walk(f["type"], space, path + ("fields", i, "type"))
            elif t == "array":
                walk(n["items"], ns, path + ("items",))
            elif t == "map":
                walk(n["values"], ns, path + ("values",))

    walk(js, "", ())
    return out


def refs_in(defn, ns):
    """Full names referenced by name inside a definition, and names defined inside it."""
    refs, inner = set(), set()

    def walk(n, ns):
        if isinstance(n, str):
            if n not in PRIMS:
                refs.add(n if "." in n else (ns + "." + n if ns else n))
        elif isinstance(n, list):
            for b in n:
                walk(b, ns)
        elif isinstance(n, dict):
            t = n.get("type")
            if t in ("record", "error", "enum", "fixed"):
                space, full = split_name(n, ns)
                inner.add(full)
                if t in ("record", "error"):
                    for f in n.get("fields", []):
                        walk(f["type"], space)
            elif t == "array":
                walk(n["items"], ns)
            elif t == "map":
                walk(n["values"], ns)

    walk(defn, ns)
    return refs, inner


def separable(js):
    """Named types whose definition refers to nothing defined outside it."""
    defs = named_defs(js)
    out = []
    for full, (d, ns, path) in defs.items():
        if not path:
            continue  # the top level itself is the remainder
        refs, inner = refs_in(d, ns)
        if refs - inner:
            continue
        if "." not in full and ns != "":
            continue  # a null-namespace type cannot be referred to from a namespace (A21)
        out.append(full)
    return out


def build_piecewise(js, subset):
    """Returns (pieces in parse order, remainder).  Pieces carry explicit
    namespaces; the remainder (and outer pieces) refer to them by full name."""
    js = copy.deepcopy(js)
    defs = named_defs(js)
    # innermost first: a split type nested inside another split type is parsed first
    order = sorted(subset, key=lambda f: -len(defs[f][2]))
    pieces = []
    for full in order:
        defs = named_defs(js)
        if full not in defs:
            # it lived inside a piece that was already cut out: cut it out of that piece
            for i, p in enumerate(pieces):
                pd = named_defs(p)
                if full in pd and pd[full][2]:
                    d, ns, path = pd[full]
                    space, _, short = full.rpartition(".")
                    piece = dict(copy.deepcopy(d), name=short, namespace=space)
                    cur = p
                    for k in path[:-1]:
                        cur = cur[k]
                    cur[path[-1]] = full
                    pieces.insert(i, piece)
                    break
            continue
        d, ns, path = defs[full]
        space, _, short = full.rpartition(".")
        piece = dict(copy.deepcopy(d), name=short, namespace=space)
        cur = js
        for k in path[:-1]:
            cur = cur[k]
        cur[path[-1]] = full
        pieces.append(piece)
    # dependencies first
    done, ordered = set(), []
    pending = list(pieces)
    for _ in range(len(pending) + 2):
        for p in list(pending):
            refs, inner = refs_in(p, "")
            if (refs - inner) <= done:
                ordered.append(p)
                done |= inner
                pending.remove(p)
    if pending:
        raise ValueError("cyclic pieces")
    return ordered, js


# ----------------------------------------------------------- operations
def obs(fn):
    st, v = guard(fn)
    if st == "exc":
        return ("exc", type(v).__name__)
    return ("ok", v)


def run_ops(fa, schema, data, seed, rereads, skip_generate=False, raw=None):
    from fastavro.schema import to_parsing_canonical_form, fingerprint
    from fastavro.utils import generate_many

    out = {}

    def binary():
        res = []
        for d in data:
            b = io.BytesIO()
            fa.schemaless_writer(b, schema, d)
            raw = b.getvalue()
            res.append((raw, fa.schemaless_reader(io.BytesIO(raw), schema)))
        return res

    out["binary"] = obs(binary)

    def container():
        b = io.BytesIO()
        fa.writer(b, schema, list(data), sync_marker=b"\x05" * 16)
        raw = b.getvalue()
        rereads.append(raw)
        return list(fa.reader(io.BytesIO(raw)))

    out["container"] = obs(container)

    def jsonrt():
        so = io.StringIO()
        fa.json_writer(so, schema, list(data))
        txt = so.getvalue()
        docs = [json.loads(l) for l in txt.split("\n")] if txt else []
        filled = None
        if isinstance(raw, dict) and raw.get("type") in ("record", "error") and docs:
            # the same text without the keys of defaulted top-level fields: the reader fills them in
            names = {f["name"] for f in raw.get("fields", []) if "default" in f}
            if names:
                short = "\n".join(json.dumps({k: v for k, v in doc.items() if k not in names}) for doc in docs)
                filled = obs(lambda: list(fa.json_reader(io.StringIO(short), schema)))
        # the same text read with a reader schema that defines the same names differently
        # (a defaulted field added to every record, int fields widened)
        evolved = obs(lambda: list(fa.json_reader(io.StringIO(txt), schema, reader_schema=_reader_evolved(raw)))) if raw is not None else None
        return docs, list(fa.json_reader(io.StringIO(txt), schema)), filled, evolved

    out["json"] = obs(jsonrt)

    def resolve():
        # bytes written under the raw schema, read with this form on the reader side and on the writer side
        from .c03 import reader_variant

        res = []
        other = reader_variant(raw)
        for d in data:
            b = io.BytesIO()
            fa.schemaless_writer(b, copy.deepcopy(raw), d)
            enc = b.getvalue()
            res.append(fa.schemaless_reader(io.BytesIO(enc), copy.deepcopy(raw), schema))
            res.append(fa.schemaless_reader(io.BytesIO(enc), schema, other))
        fo = io.BytesIO()
        fa.writer(fo, copy.deepcopy(raw), list(data))
        res.append(list(fa.reader(io.BytesIO(fo.getvalue()), reader_schema=schema)))
        # a writer that lacks the defaulted top-level fields: this form, as reader schema, supplies the defaults
        if isinstance(raw, dict) and raw.get("type") in ("record", "error"):
            names = {f["name"] for f in raw.get("fields", []) if "default" in f}
            if names and len(names) < len(raw["fields"]):
                older = dict(copy.deepcopy(raw), fields=[copy.deepcopy(f) for f in raw["fields"] if f["name"] not in names])
                try:
                    RS.build(older)
                except Exception:
                    older = None
                if older is not None:
                    for d in data:
                        if not isinstance(d, dict):
                            continue
                        b = io.BytesIO()
                        fa.schemaless_writer(b, copy.deepcopy(older), {k: v for k, v in d.items() if k not in names})
                        res.append(fa.schemaless_reader(io.BytesIO(b.getvalue()), copy.deepcopy(older), schema))
        return res

    out["resolve"] = obs(resolve) if raw is not None else ("ok", None)

    def named_reads():
        # the reader options reach every depth whichever form the schema has
        res = []
        for d in data:
            b = io.BytesIO()
            fa.schemaless_writer(b, schema, d)
            enc = b.getvalue()
            res.append(fa.schemaless_reader(io.BytesIO(enc), schema, return_named_type=True))
            # (return_record_name is left out: the library documents that it takes every by-name
            # branch for a record, which by construction differs between in-place and by-name forms)
            res.append(fa.schemaless_reader(io.BytesIO(enc), schema, return_named_type=True, return_named_type_override=True))
            if raw is not None:
                # the two sides in different forms (one defines a type where the other names it)
                res.append(fa.schemaless_reader(io.BytesIO(enc), copy.deepcopy(raw), schema, return_named_type=True))
                res.append(fa.schemaless_reader(io.BytesIO(enc), schema, copy.deepcopy(raw), return_named_type=True))
        if raw is not None:
            fo = io.BytesIO()
            fa.writer(fo, copy.deepcopy(raw), list(data))
            res.append(list(fa.reader(io.BytesIO(fo.getvalue()), reader_schema=schema, return_named_type=True)))
            res.append([list(b) for b in fa.block_reader(io.BytesIO(fo.getvalue()), reader_schema=schema, return_named_type=True)])
        return res

    out["named_reads"] = obs(named_reads)

    def tuple_data():
        # sequences given as tuples with the tuple notation switched off: the option reaches
        # every depth whichever form the schema has
        res = []
        for d in data:
            t = _tuplify(d)
            res.append(fa.validate(t, schema, raise_errors=False, disable_tuple_notation=True))
            b = io.BytesIO()
            st, v = guard(fa.schemaless_writer, b, schema, t, disable_tuple_notation=True)
            res.append(type(v).__name__ if st == "exc" else b.getvalue())
            b = io.BytesIO()
            st, v = guard(fa.writer, b, schema, [t], validator=True, disable_tuple_notation=True, sync_marker=b"\x06" * 16)
            res.append(type(v).__name__ if st == "exc" else list(fa.reader(io.BytesIO(b.getvalue()))))
        return res

    out["tuple_data"] = obs(tuple_data)
    from fastavro.validation import validate_many
    out["validate"] = obs(lambda: [fa.validate(d, schema, raise_errors=False) for d in data] + [fa.validate(object, schema, raise_errors=False)]
                          + [validate_many(list(data), schema, raise_errors=False), validate_many(list(data) + [object], schema, raise_errors=False)])
    out["pcf"] = obs(lambda: to_parsing_canonical_form(schema))
    out["fingerprint"] = obs(lambda: fingerprint(to_parsing_canonical_form(schema), "CRC-64-AVRO"))

    def gen():
        random.seed(seed)
        # uuid4() does not draw from `random`: mask generated uuid strings
        return _mask_uuid(list(generate_many(schema, 3)))

    # data generation on recursive types is unbounded (open finding of C20) and can take
    # tens of seconds before it blows the stack: not exercised here
    out["generate"] = ("ok", "skipped: recursive schema") if skip_generate else obs(gen)
    return out


def _reader_evolved(js):
    def walk(n):
        if isinstance(n, list):
            return [walk(b) for b in n]
        if isinstance(n, dict):
            out = dict(n)
            t = n.get("type")
            if t in ("record", "error"):
                out["fields"] = [dict(f, type="long" if f["type"] == "int" else walk(f["type"])) for f in n.get("fields", [])]
                if not any(f["name"] == "zz_added" for f in out["fields"]):
                    out["fields"].append({"name": "zz_added", "type": "int", "default": 7})
            elif t == "array":
                out["items"] = walk(n["items"])
            elif t == "map":
                out["values"] = walk(n["values"])
            elif isinstance(t, (dict, list)):
                out["type"] = walk(t)
            return out
        return n
    return walk(copy.deepcopy(js))


def _tuplify(d):
    if isinstance(d, list):
        return tuple(_tuplify(x) for x in d)
    if isinstance(d, dict):
        return {k: _tuplify(v) for k, v in d.items()}
    if type(d) is tuple:
        return tuple(_tuplify(x) for x in d)
    return d


import re as _re

_UUID = _re.compile(r"\A[0-9a-f]{32}\Z")


def _mask_uuid(x):
    if isinstance(x, str):
        return "<uuid4>" if _UUID.match(x) else x
    if isinstance(x, list):
        return [_mask_uuid(y) for y in x]
    if isinstance(x, tuple):
        return tuple(_mask_uuid(y) for y in x)
    if isinstance(x, dict):
        return {k: _mask_uuid(v) for k, v in x.items()}
    return x


def same_obs(a, b):
    if a[0] != b[0]:
        return False
    if a[0] == "exc":
        return a[1] == b[1]
    return RC.same(_norm(a[1]), _norm(b[1]))


def _norm(x):
    if isinstance(x, tuple):
        return [_norm(y) for y in x]
    if isinstance(x, list):
        return [_norm(y) for y in x]
    if isinstance(x, dict):
        return {k: _norm(v) for k, v in x.items()}
    return x


def one_case(sh, fa, rng, case, reread_log, only_subset=None):
    """Returns a list of violation triples (kind, detail, info)."""
    js = case["schema"]
    data = case["data"]
    seed = rng.getrandbits(30)
    out = []
    # ---- parse idempotence
    st, parsed = guard(fa.parse_schema, copy.deepcopy(js))
    if st == "exc":
        return [("parse-rejected-valid-schema", exc_name(parsed), {"schema": js})]
    st, again = guard(fa.parse_schema, parsed)
    if st == "exc" or (isinstance(parsed, dict) and "__fastavro_parsed" in parsed and again is not parsed) or not _same_schema(again, parsed):
        return [("parse-not-idempotent", "parse_schema(parsed) returned a different schema: %s" % (exc_name(again) if st == "exc" else printable(again, 200)), {"schema": js})]
    sh.count("idempotence_checked")
    rr = []
    skipgen = "recursive" in known.schema_traits(js)
    base = run_ops(fa, copy.deepcopy(js), data, seed, rr, skipgen, js)
    forms = [("parsed", parsed, ())]
    sep = separable(js)[:4]
    subsets = [s for k in range(1, len(sep) + 1) for s in itertools.combinations(sep, k)]
    if only_subset is not None:
        subsets = [tuple(only_subset)] if only_subset else []
    for subset in subsets:
        try:
            pieces, rest = build_piecewise(js, subset)
        except (ValueError, KeyError, IndexError):
            sh.count("split_not_constructible")
            continue
        shared = {}
        ok = True
        for p in pieces:
            st, r = guard(fa.parse_schema, p, shared)
            if st == "exc":
                out.append(("piece-rejected", "a separately parsed named type was rejected: %s" % exc_name(r), {"schema": js, "subset": list(subset), "piece": p}))
                ok = False
                break
        if not ok:
            continue
        st, pw = guard(fa.parse_schema, rest, shared)
        if st == "exc":
            out.append(("remainder-rejected", "the remainder referring to separately parsed types was rejected: %s" % exc_name(pw), {"schema": js, "subset": list(subset), "remainder": rest}))
            continue
        forms.append(("piecewise", pw, subset))
        sh.count("piecewise_forms")
        sh.count("nonempty_splits")
    for name, schema, subset in forms:
        rr2 = []
        o = run_ops(fa, schema, data, seed, rr2, skipgen, js)
        for op in OPS:
            sh.count("forms_compared")
            sh.case(h64(schema_shape(js), len(subset), op) if op == "binary" else None, bool(subset) or op != "parse")
            if not same_obs(base[op], o[op]):
                out.append(("form-dependent-" + op,
                            "%s under the %s form%s: %s; under the raw schema: %s"
                            % (op, name, " (split %s)" % list(subset) if subset else "", printable(o[op], 220), printable(base[op], 220)),
                            {"schema": js, "data": data, "form": name, "subset": list(subset), "op": op}))
        if o["container"][0] == "ok":
            sh.count("container_reread")
        if rr2 and len(reread_log) < 40 and rng.random() < 0.2 and base["container"][0] == "ok":
            reread_log.append((rr2[0], base["container"][1], {"schema": js, "data": data, "form": name, "subset": list(subset), "op": "container-fresh"}))
    return out


def _same_schema(a, b):
    try:
        return json.dumps(known_strip(a), sort_keys=True, default=str) == json.dumps(known_strip(b), sort_keys=True, default=str)
    except Exception:
        return False


def known_strip(s):
    if isinstance(s, dict):
        return {k: known_strip(v) for k, v in s.items() if k != "__named_schemas"}
    if isinstance(s, list):
        return [known_strip(x) for x in s]
    return s


FRESH = r"""
import sys, pickle, io
import fastavro
items = pickle.load(open(sys.argv[1], 'rb'))
out = []
for raw in items:
    try:
        out.append(('ok', list(fastavro.reader(io.BytesIO(raw)))))
    except Exception as e:
        out.append(('exc', type(e).__name__))
pickle.dump(out, open(sys.argv[2], 'wb'))
"""


def fresh_rereads(sh, reread_log, spec):
    if not reread_log:
        return
    scratch = os.environ["VF_SCRATCH"]
    inp = os.path.join(scratch, "c12-in-%d.pkl" % spec["shard"])
    outp = os.path.join(scratch, "c12-out-%d.pkl" % spec["shard"])
    pickle.dump([r[0] for r in reread_log], open(inp, "wb"))
    p = subprocess.run([sys.executable, "-B", "-c", FRESH, inp, outp], cwd=scratch, env=dict(os.environ),
                       stdout=subprocess.PIPE, stderr=subprocess.PIPE, timeout=300)
    if p.returncode != 0:
        sh.errors.append("fresh reread child failed: " + p.stderr.decode()[-400:])
        sh.counters["oracle_errors"] += 1
        return
    res = pickle.load(open(outp, "rb"))
    for (raw, want, info), got in zip(reread_log, res):
        sh.count("fresh_process_rereads")
        if got[0] != "ok" or not RC.same(_norm(got[1]), _norm(want)):
            key = known.classify("C12", None, ("form-dependent-container", "", info), {"schema": info["schema"]}, info["data"], None, sh, 0)
            sh.violation("file-not-readable-on-its-own", "a fresh interpreter reading the file written under the %s form gets %s" % (info["form"], printable(got, 200)), info, known_key=key)


def run_shard(spec):
    import fastavro as fa

    sh = Shard(PID, spec)
    rng = rng_for("C12", spec["seed"], spec["shard"])
    reread_log = []
    if "replay" in spec:
        import base64

        info = pickle.loads(base64.b64decode(spec["replay"]["pickle"]))
        node, env = RS.build(info["schema"])
        data = info.get("data") or [DatumFor(node, rng)]
        case = {"schema": info["schema"], "node": node, "data": data}
        sh.case(None)
        for v in one_case(sh, fa, rng, case, reread_log, info.get("subset")):
            key = known.classify("C12", fa, v, case, data, None, sh, 0)
            sh.violation(v[0], v[1], v[2], known_key=key)
        return sh.result()
    if spec.get("witness"):
        for key, (js, data, subset) in known.witnesses("C12").items():
            node, env = RS.build(js)
            case = {"schema": js, "node": node, "data": data}
            for v in sh.run_case(one_case, sh, fa, rng, case, reread_log, subset) or []:
                k2 = known.classify("C12", fa, v, case, data, None, sh, 0)
                sh.violation(v[0], v[1], v[2], known_key=k2, what="%s: %s" % (v[0], v[1][:160]))
            sh.count("known_witnesses_replayed")
    if spec.get("witness"):
        for js, data in TARGETED:
            node, env = RS.build(js)
            case = {"schema": js, "node": node, "data": data}
            for v in sh.run_case(one_case, sh, fa, rng, case, reread_log) or []:
                k2 = sh.run_case(known.classify, "C12", fa, v, case, data, None, sh, 0)
                sh.violation(v[0], v[1], v[2], known_key=k2, what="%s: %s" % (v[0], v[1][:160]))
            sh.count("targeted_schemas")
    i = 0
    while i < spec["n"] and not sh.out_of_time():
        i += 1
        case = gen_case(rng, dict(bytes_defaults=0.4, union_default_any=True, null_ns_inside=0.05, max_nodes=16, max_depth=4, logical=rng.random() < 0.15),
                        dict(size_budget=30, big=0.0, mappings=0.0))
        if RC.raw_under_logical(case["node"], case["datum"]):
            continue
        if rng.random() < 0.1 and "record" in repr(case["schema"]):
            from ..gen.schema import errorize
            case["schema"] = errorize(case["schema"], rng)
            case["node"], case["env"] = RS.build(case["schema"])
            sh.count("error_kind_schemas")
        case["data"] = [case["datum"]]
        sh.feat(case["features"])
        vs = sh.run_case(one_case, sh, fa, rng, case, reread_log) or []
        memo = {}
        for v in vs:
            gk = (v[2].get("form"), tuple(v[2].get("subset") or ()))
            if gk not in memo:
                memo[gk] = sh.run_case(known.classify, "C12", fa, v, case, case["data"], None, sh, 0)
            sh.violation(v[0], v[1], v[2], known_key=memo[gk], what="%s: %s" % (v[0], v[1][:160]))
        if i % 60 == 1:
            sh.sample({"schema": case["schema"], "separable": separable(case["schema"])})
    sh.run_case(fresh_rereads, sh, reread_log, spec)
    return sh.result()


def DatumFor(node, rng):
    from ..gen.datum import DatumGen

    return DatumGen(rng, size_budget=30, big=0.0, mappings=0.0).gen(node)

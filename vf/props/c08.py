"""C08 — reading with a reader schema yields what the specification's
resolution rules prescribe."""
import copy
import decimal
import io
import json
import random

from ..harness import Shard, rng_for, h64, schema_shape, datum_shape, printable, guard, exc_name
from ..gen.cases import gen_case
from ..gen.evolve import Evolver
from ..ref import schema as RS, binary as RB, conform as RC, resolve as RR, container as RK

PID = "C08"
LEVEL = "exploration"
RULE = (
    "triples (writer schema, reader schema, datum): the reader schema is derived from a generated "
    "writer schema by 0-4 steps at random positions/depths out of {reorder fields (definitions "
    "re-inlined at first use = moved definitions), remove field, add field with/without default, "
    "rename field with alias, rename type with alias, change namespace only, promote, demote, enum "
    "drop symbol with/without default, add, reorder, fixed size change, wrap in / unwrap from a "
    "union, reorder/drop/add union branches}; 0 steps = the writer schema as a separate deep copy. "
    "The datum is encoded by the independent encoder and read with schemaless_reader(writer, "
    "reader) and with reader(file, reader_schema). Oracle: independent datum-driven implementation "
    "of the rules as C08 words them: value equality, or NoResolution => SchemaResolutionError (class "
    "identity); either-cases (empty collections of unmatched element types, non-UTF-8 bytes to "
    "string) skipped and counted. distinct = hash(writer shape, step kinds); non-trivial = >=1 step "
    "or the identity copy."
)
ASSUMPTIONS = [
    "an empty array/map whose element types do not resolve may be returned empty or rejected (A11)",
    "int/long -> float promotion value float(v); float32-rounded value also accepted (A12)",
    "generated reader aliases are the writer's unqualified or full name (A13)",
    "reader-only fields use defaults of the exact Python type of the field (no bytes/fixed defaults: separate known mechanism)",
]
N = {"quick": 128000, "thorough": 2400000}
TIME_LIMIT = {"quick": 40, "thorough": 560}
SHARDS = 16
REACH = {
    "quick": {"triples_checked": 15000, "expected_error": 1500, "expected_value": 8000, "container_reads": 1500,
              "step_reorder_fields": 100, "step_remove_field": 100, "step_add_field_default": 100,
              "step_add_field_nodefault": 100, "step_rename_field_alias": 100, "step_rename_type_alias": 50,
              "step_change_namespace": 50, "step_promote": 100, "step_demote": 100, "step_enum_drop_with_default": 50,
              "step_enum_drop_no_default": 50, "step_fixed_size": 50, "step_wrap_union": 100, "step_unwrap_union": 100,
              "step_identity_copy": 100},
    "thorough": {"triples_checked": 400000},
}


def plan(tier, seed):
    n = N[tier]
    return [{"shard": i, "n": n // SHARDS, "seed": seed, "tier": tier, "time_limit": TIME_LIMIT[tier]}
            for i in range(SHARDS)]


def f32ok(a, b):
    """same(), additionally accepting a float32-rounded float (A12)."""
    if RC.same(a, b):
        return True
    if isinstance(a, float) and isinstance(b, float):
        return RB.f32(b) == a
    if isinstance(a, dict) and isinstance(b, dict) and a.keys() == b.keys():
        return all(f32ok(a[k], b[k]) for k in a)
    if isinstance(a, list) and isinstance(b, list) and len(a) == len(b):
        return all(f32ok(x, y) for x, y in zip(a, b))
    return False


def annotate_uninterpreted(js, rng):
    """Plain primitives of the schema re-spelled as {"type": p, "logicalType": <something not interpreted for p>}."""
    BAD = {"int": ["x-acme-token", "decimal", "timestamp-micros", "uuid"], "long": ["x-acme-token", "date", "time-millis", "decimal"],
           "string": ["x-acme-token", "decimal", "date"], "bytes": ["x-acme-token", "uuid", "date"],
           "float": ["x-acme-token", "decimal"], "double": ["x-acme-token", "timestamp-millis"], "boolean": ["x-acme-token"]}

    def walk(n):
        if isinstance(n, str):
            if n in BAD and rng.random() < 0.4:
                out = {"type": n, "logicalType": rng.choice(BAD[n])}
                if out["logicalType"] == "decimal":
                    out["precision"] = 4
                return out
            return n
        if isinstance(n, list):
            return [walk(b) for b in n]
        if isinstance(n, dict):
            out = dict(n)
            t = n.get("type")
            if t in ("record", "error"):
                out["fields"] = [dict(f, type=walk(f["type"])) for f in n.get("fields", [])]
            elif t == "array":
                out["items"] = walk(n["items"])
            elif t == "map":
                out["values"] = walk(n["values"])
            return out
        return n
    return walk(copy.deepcopy(js))


def scramble(x):
    """Edit a result in place, everywhere."""
    if isinstance(x, dict):
        for v in list(x.values()):
            scramble(v)
        x["__vf_edit__"] = 1
    elif isinstance(x, list):
        for v in x:
            scramble(v)
        x.append("__vf_edit__")
    elif isinstance(x, tuple):
        for v in x:
            scramble(v)


def _pt(ns, fields):
    return {"type": "record", "name": "Point", "namespace": ns, "fields": fields}


# hand-made evolutions of shapes the random evolver rarely composes: a type defined in place on
# one side where the other side has the by-name reference, under another namespace, itself evolved
TARGETED = [
    ({"type": "record", "name": "Shape", "namespace": "v1", "fields": [
        {"name": "first", "type": _pt("v1", [{"name": "x", "type": "int"}, {"name": "y", "type": "int"}])}, {"name": "second", "type": "v1.Point"}]},
     {"type": "record", "name": "Shape", "namespace": "v2", "fields": [
         {"name": "second", "type": _pt("v2", [{"name": "x", "type": "double"}, {"name": "y", "type": "int"}, {"name": "z", "type": "int", "default": -1}])},
         {"name": "first", "type": "v2.Point"}]},
     {"first": {"x": 1, "y": 2}, "second": {"x": 3, "y": 4}}),
    ({"type": "record", "name": "Shape", "namespace": "v1", "fields": [
        {"name": "first", "type": _pt("v1", [{"name": "x", "type": "int"}])}, {"name": "more", "type": {"type": "array", "items": "Point"}},
        {"name": "opt", "type": ["null", "v1.Point"]}]},
     {"type": "record", "name": "Shape", "namespace": "v1", "fields": [
         {"name": "opt", "type": ["null", _pt("v1", [{"name": "x", "type": "long"}, {"name": "w", "type": "string", "default": "w"}])]},
         {"name": "more", "type": {"type": "array", "items": "Point"}}]},
     {"first": {"x": 1}, "more": [{"x": 2}, {"x": 3}], "opt": {"x": 4}}),
    ({"type": "record", "name": "Pick", "fields": [{"name": "u", "type": ["null",
        {"type": "record", "name": "Circle", "fields": [{"name": "r", "type": "int"}]}, {"type": "record", "name": "Square", "fields": [{"name": "s", "type": "int"}]}]}]},
     {"type": "record", "name": "Pick", "fields": [{"name": "u", "type": ["null",
         {"type": "record", "name": "Square", "fields": [{"name": "s", "type": "long"}, {"name": "t", "type": "int", "default": 0}]},
         {"type": "record", "name": "Circle", "fields": [{"name": "r", "type": "double"}]}]}]},
     {"u": {"r": 5}}),
    ({"type": "record", "name": "Tok", "fields": [{"name": "e", "type": {"type": "enum", "name": "Lvl", "symbols": ["LO", "MID", "HI"], "default": "LO"}},
                                                {"name": "e2", "type": "Lvl"}]},
     {"type": "record", "name": "Tok", "fields": [{"name": "e2", "type": {"type": "enum", "name": "Lvl", "symbols": ["HI", "LO"]}}, {"name": "e", "type": "Lvl"}]},
     {"e": "HI", "e2": "MID"}),
    # two fixed types with the same unqualified name in one reader union, the one whose full name
    # equals the writer's by-name branch has another size: the other one matches (sizes and
    # unqualified names), found by the random evolver
    ([{"type": "record", "name": "R", "fields": [{"name": "h", "type": ["null", {"type": "fixed", "name": "Rec", "namespace": "a", "size": 3}]}]},
      "a.Rec", {"type": "fixed", "name": "Rec", "namespace": "a.b", "size": 3}, "bytes"],
     [{"type": "record", "name": "R", "fields": [{"name": "h", "type": ["null", {"type": "fixed", "name": "Rec", "namespace": "a", "size": 4}]}]},
      "a.Rec", {"type": "fixed", "name": "Rec", "namespace": "a.b", "size": 3}, "bytes"],
     b"abc"),
    # a fixed that carries the decimal annotation is still a fixed: another size is a mismatch,
    # whatever precision and scale say
    ({"type": "record", "name": "Bill", "fields": [
        {"name": "amount", "type": {"type": "fixed", "name": "Money", "size": 8, "logicalType": "decimal", "precision": 9, "scale": 2}},
        {"name": "n", "type": "int"}]},
     {"type": "record", "name": "Bill", "fields": [
         {"name": "amount", "type": {"type": "fixed", "name": "Money", "size": 16, "logicalType": "decimal", "precision": 9, "scale": 2}},
         {"name": "n", "type": "int"}]},
     {"amount": decimal.Decimal("1234567.89"), "n": 1}),
    ({"type": "record", "name": "Bill", "fields": [
        {"name": "amounts", "type": {"type": "array", "items": ["null", {"type": "fixed", "name": "Money", "size": 8, "logicalType": "decimal", "precision": 9, "scale": 2}]}},
        {"name": "again", "type": {"type": "map", "values": "Money"}}]},
     {"type": "record", "name": "Bill", "fields": [
         {"name": "amounts", "type": {"type": "array", "items": ["null", {"type": "fixed", "name": "Money", "size": 4, "logicalType": "decimal", "precision": 9, "scale": 2}]}},
         {"name": "again", "type": {"type": "map", "values": "Money"}}]},
     {"amounts": [None, decimal.Decimal("-0.01")], "again": {"k": decimal.Decimal("5.00")}}),
]


def shared_reader_sequences(sh, fa, SRE, rng):
    """One parsed reader schema object used to read data of several writer versions in turn:
    every read is judged on its own writer schema (nothing learnt from an earlier pair may stick)."""
    import itertools
    reader = {"type": "record", "name": "User", "namespace": "acct", "fields": [
        {"name": "id", "type": "long"}, {"name": "email", "type": "string", "default": "n/a"},
        {"name": "score", "type": "double", "default": 0.0}, {"name": "tags", "type": {"type": "array", "items": "string"}, "default": []},
        {"name": "level", "type": {"type": "enum", "name": "Level", "symbols": ["LO", "HI"], "default": "LO"}, "default": "LO"}]}
    writers = [
        ({"type": "record", "name": "User", "namespace": "acct", "fields": [{"name": "id", "type": "long"}]}, {"id": 1}),
        ({"type": "record", "name": "User", "namespace": "acct", "fields": [{"name": "id", "type": "int"}, {"name": "email", "type": "string"}]}, {"id": 2, "email": "a@b"}),
        ({"type": "record", "name": "User", "namespace": "acct", "fields": [{"name": "score", "type": "float"}, {"name": "id", "type": "long"}, {"name": "gone", "type": "bytes"}]},
         {"score": 1.5, "id": 3, "gone": b"x"}),
        ({"type": "record", "name": "User", "namespace": "acct", "fields": [{"name": "id", "type": "long"}, {"name": "level", "type": {"type": "enum", "name": "Level", "symbols": ["LO", "MID", "HI"]}},
                                                                            {"name": "tags", "type": {"type": "array", "items": "string"}}]}, {"id": 4, "level": "MID", "tags": ["t"]}),
    ]
    rnode, _e = RS.build(reader)
    prepared = []
    for wjs, d in writers:
        wnode, _e2 = RS.build(wjs)
        tree = RB.decode_all(wnode, RB.encode(wnode, RC.from_datum(wnode, d)))
        prepared.append((wjs, RB.encode(wnode, tree), RR.resolve(wnode, rnode, tree)))
    for order in itertools.permutations(range(len(writers)), 3):
        R = fa.parse_schema(copy.deepcopy(reader))
        for k in order:
            wjs, data, want = prepared[k]
            st, got = guard(fa.schemaless_reader, io.BytesIO(data), copy.deepcopy(wjs), R)
            if not judge(sh, SRE, st, got, "value", want, {"writer": wjs, "reader": reader, "datum": writers[k][1], "steps": ["shared_reader", list(order)]}, "schemaless_reader (parsed reader schema reused)"):
                return
            blob, _b = RK.write(wjs, [data], [1])
            st, got = guard(lambda: list(fa.reader(io.BytesIO(blob), reader_schema=R)))
            if not judge(sh, SRE, st, got, "value", [want], {"writer": wjs, "reader": reader, "datum": writers[k][1], "steps": ["shared_reader", list(order)]}, "reader (parsed reader schema reused)"):
                return
        sh.count("shared_reader_sequences")


def one_case(sh, fa, SRE, rng, case, drop_bytes_default_fields=False, reader_given=None):
    wjs, wnode, d = case["schema"], case["node"], case["datum"]
    ev = Evolver(rng)
    rjs, steps = (copy.deepcopy(reader_given), ["hand_made"]) if reader_given is not None else ev.evolve(wjs)
    if drop_bytes_default_fields:
        rjs = _drop_fields(rjs, "added_bytes")
    try:
        rnode, renv = RS.build(rjs)
    except RS.SchemaError:
        return
    st, _p = guard(fa.parse_schema, copy.deepcopy(rjs))
    if st == "exc":
        sh.count("reader_schema_invalid_skipped")
        return
    try:
        tree = RC.from_datum(wnode, d)
    except RecursionError:
        return
    data = RB.encode(wnode, tree)
    tree = RB.decode_all(wnode, data)
    sh.case(h64(schema_shape(wjs), tuple(sorted(set(steps)))), True)
    info = {"writer": wjs, "reader": rjs, "datum": d, "steps": steps}
    try:
        want = RR.resolve(wnode, rnode, tree)
        verdict = "value"
    except RR.NoResolution as e:
        verdict, want = "error", str(e)
    except RR.Either:
        sh.count("either_cases_skipped")
        return
    for s in set(steps):
        sh.count("step_" + s)

    form = rng.choice(["raw", "raw", "parsed_reader", "parsed_both", "parsed_writer"])
    sh.count("schema_form_" + form)

    # the writer's schema may carry logicalType annotations nobody interprets (unknown names, known
    # names on the wrong underlying type): they are ignored, the value is resolved as a plain one
    wlib = wjs
    if rng.random() < 0.2:
        wlib = annotate_uninterpreted(wjs, rng)
        if wlib != wjs:
            sh.count("writer_with_uninterpreted_logical_types")
            info["writer_as_given"] = wlib

    def read_sl():
        w = copy.deepcopy(wlib)
        r = copy.deepcopy(rjs)
        if form in ("parsed_writer", "parsed_both"):
            w = fa.parse_schema(w)
        if form in ("parsed_reader", "parsed_both"):
            r = fa.parse_schema(r)
        return fa.schemaless_reader(io.BytesIO(data), w, r)

    st, got = guard(read_sl)
    if not judge(sh, SRE, st, got, verdict, want, info, "schemaless_reader"):
        return
    if verdict == "value" and rng.random() < 0.3:
        # every result is the caller's own: editing one must not show in the next read
        # through the same schema objects (defaults handed out by reference would)
        def twice():
            w, r = fa.parse_schema(copy.deepcopy(wjs)), fa.parse_schema(copy.deepcopy(rjs))
            a = fa.schemaless_reader(io.BytesIO(data), w, r)
            scramble(a)
            return fa.schemaless_reader(io.BytesIO(data), w, r)
        st, got2 = guard(twice)
        if st == "exc" or not f32ok(got2, want):
            sh.violation("resolved-value-differs", "second read after the caller edited the first result: %s, the rules give %s"
                         % (exc_name(got2) if st == "exc" else printable(got2, 250), printable(want, 250)), dict(info, edited_first_result=True))
            return
        sh.count("reread_after_editing_result")
    if rng.random() < 0.12:
        blob, _b = RK.write(wjs, [data, data], [1, 1], codec=rng.choice(["null", "deflate"]))

        def read_file():
            it = fa.reader(io.BytesIO(blob), reader_schema=copy.deepcopy(rjs))
            first = next(it)
            keep = copy.deepcopy(first)
            scramble(first)  # the caller edits a record while the file is still being read
            return [keep] + list(it)
        st, got = guard(read_file)
        if verdict == "value":
            if not judge(sh, SRE, st, got, verdict, [want, want], info, "reader"):
                return
        else:
            if not judge(sh, SRE, st, got, verdict, want, info, "reader"):
                return
        sh.count("container_reads")
    sh.count("triples_checked")
    sh.count("expected_" + verdict)


def _drop_fields(js, name):
    if isinstance(js, list):
        return [_drop_fields(b, name) for b in js]
    if isinstance(js, dict):
        out = dict(js)
        t = js.get("type")
        if t == "array":
            out["items"] = _drop_fields(js["items"], name)
        elif t == "map":
            out["values"] = _drop_fields(js["values"], name)
        elif t == "record":
            out["fields"] = [dict(f, type=_drop_fields(f["type"], name)) for f in js.get("fields", []) if name not in f["name"]]
        return out
    return js


def judge(sh, SRE, st, got, verdict, want, info, api):
    if verdict == "value":
        if st == "exc":
            kind = "resolvable-datum-rejected" if isinstance(got, SRE) else "resolvable-datum-raised-other"
            sh.violation(kind, "%s raised %s; the rules give %s" % (api, exc_name(got), printable(want, 200)), info)
            return False
        if not f32ok(got, want):
            sh.violation("resolved-value-differs", "%s returned %s, the rules give %s" % (api, printable(got, 250), printable(want, 250)), info)
            return False
        return True
    if st == "ok":
        sh.violation("unresolvable-datum-returned-value", "%s returned %s although the rules give no result (%s)" % (api, printable(got, 200), want), info)
        return False
    if not isinstance(got, SRE):
        sh.violation("wrong-error-type", "%s raised %s instead of SchemaResolutionError (%s)" % (api, exc_name(got), want), info)
        return False
    return True


def run_shard(spec):
    import fastavro as fa
    from fastavro.read import SchemaResolutionError as SRE

    sh = Shard(PID, spec)
    rng = rng_for("C08", spec["seed"], spec["shard"])
    if "replay" in spec:
        import base64, pickle

        info = pickle.loads(base64.b64decode(spec["replay"]["pickle"]))
        wnode, _ = RS.build(info["writer"])
        rnode, _ = RS.build(info["reader"])
        d = info["datum"]
        tree = RB.decode_all(wnode, RB.encode(wnode, RC.from_datum(wnode, d)))
        data = RB.encode(wnode, tree)
        sh.case(None)
        try:
            want = RR.resolve(wnode, rnode, tree)
            verdict = "value"
        except RR.NoResolution as e:
            verdict, want = "error", str(e)
        st, got = guard(lambda: fa.schemaless_reader(io.BytesIO(data), copy.deepcopy(info["writer"]), copy.deepcopy(info["reader"])))
        judge(sh, SRE, st, got, verdict, want, info, "schemaless_reader")
        return sh.result()
    if spec["shard"] == 0:
        for wjs, rjs, d in TARGETED:
            wnode, _e = RS.build(wjs)
            for k in range(4):
                sh.run_case(one_case, sh, fa, SRE, random.Random(k), {"schema": wjs, "node": wnode, "datum": d, "features": set()}, False, rjs)
            sh.count("hand_made_evolutions")
        sh.run_case(shared_reader_sequences, sh, fa, SRE, rng)
    i = 0
    while i < spec["n"] and not sh.out_of_time():
        i += 1
        case = gen_case(rng, dict(bytes_defaults=0.0, max_nodes=20), dict(size_budget=40, big=0.0, mappings=0.0, omit_defaults=0.0))
        if rng.random() < 0.15:
            from ..gen.evolve import decorate_field_aliases
            case["schema"] = decorate_field_aliases(case["schema"], rng)
            case["node"], case["env"] = RS.build(case["schema"])
            sh.count("writer_field_aliases")
        sh.feat(case["features"])
        seed = rng.getrandbits(48)
        probe = Evolver(random.Random(seed)).evolve(case["schema"])[0]
        applies = 'added_bytes"' in json.dumps(probe)
        sh.run_case(sh.with_finding, "bytes-default-used-verbatim", applies,
                    lambda s_: one_case(s_, fa, SRE, random.Random(seed), case),
                    lambda s_: one_case(s_, fa, SRE, random.Random(seed), case, True))
        if i % 400 == 1:
            sh.sample({"writer": case["schema"], "datum": printable(case["datum"], 150)})
    return sh.result()

"""C01 — binary round trip through schemaless_writer / schemaless_reader,
with byte-exact stream consumption.  (C02 reuses the workload.)"""
import copy
import io

from ..harness import Shard, rng_for, h64, schema_shape, datum_shape, printable, guard, exc_name
from ..gen.cases import gen_case, boundary_cases
from ..ref import schema as RS, binary as RB, conform as RC
from ..mon.streams import ReadOnlyStream
from .. import known

PID = "C01"
LEVEL = "exploration"
RULE = (
    "cases = deterministic boundary stratum (every varint-length boundary, float "
    "specials, string/bytes classes, collection sizes 0..200, union arities and "
    "branch positions, all 64 omit-masks of defaulted fields, recursive types) + "
    "random (schema, conforming datum) pairs from the generators; each is written "
    "with schemaless_writer and read with schemaless_reader on a read-only byte "
    "counting stream, alone (followed by a sentinel) and in back-to-back streams of "
    "2-6 values. distinct = hash of (schema shape without names, datum value-class "
    "signature, raw/parsed); non-trivial = schema has a complex type or the value "
    "is a boundary value."
)
ASSUMPTIONS = [
    "subject is the pure-Python implementation (no compiled extension can be rebuilt offline)",
    "reference decoder/normaliser in vf/ref is the oracle (self-checked at start)",
    "schema depth <= 5, <= 40 nodes; data <= ~70 KB per value",
    "a union default is generated for a later branch only when no earlier branch fits its JSON type (the default then belongs to that branch under every reading); defaults that reach an enclosing recursive type are not generated",
    "15% of the random cases run with tuple notation switched off (tuples are plain sequences, no hints)",
]
SENTINEL = b"\xa5SENTINEL\x5a\x00\x01\x02\x03"
N = {"quick": 160000, "thorough": 2400000}
TIME_LIMIT = {"quick": 40, "thorough": 480}
SHARDS = 16
REACH = {
    "quick": {"cases_checked": 10000, "boundary_cases": 150, "back_to_back_streams": 100,
              "omitted_default_cases": 50, "recursive_cases": 20, "by_name_cases": 50},
    "thorough": {"cases_checked": 100000, "back_to_back_streams": 5000},
}
SOPTS = dict(bytes_defaults=0.5, null_ns_inside=0.05, union_default_any=True)
KNOWN_BYTES_DEFAULT = "bytes-default-used-verbatim"
DOPTS = dict(omit_nullable=0.1, hints=0.12, extras=0.05)


def plan(tier, seed):
    n = N[tier]
    return [
        {"shard": i, "n": n // SHARDS, "seed": seed, "boundary": i == 0, "tier": tier,
         "time_limit": TIME_LIMIT[tier]}
        for i in range(SHARDS)
    ]


def nontrivial(js, feats):
    return not isinstance(js, str) or any(f.startswith("boundary") for f in feats)


def write_value(fa, schema_arg, datum, **kw):
    out = io.BytesIO()
    fa.schemaless_writer(out, schema_arg, datum, **kw)
    return out.getvalue()


def check_roundtrip(sh, fa, case, parsed, prop="C01"):
    """Returns (bytes, tree, expected) or None if a violation was recorded."""
    js, node, datum = case["schema"], case["node"], case["datum"]
    before = copy.deepcopy(js)
    if parsed:
        st, schema_arg = guard(fa.parse_schema, copy.deepcopy(js))
        if st == "exc":
            sh.violation("parse-rejected-valid-schema", "parse_schema raised %s on a specification-valid schema" % exc_name(schema_arg),
                         {"schema": js, "datum": datum, "parsed": parsed})
            return None
    else:
        schema_arg = copy.deepcopy(js)
    tuples = not case.get("dtn")
    st, data = guard(write_value, fa, schema_arg, datum, **({} if tuples else {"disable_tuple_notation": True}))
    if st == "exc":
        sh.violation("writer-raised", "schemaless_writer raised %s on a conforming datum" % exc_name(data),
                     {"schema": js, "datum": datum, "parsed": parsed, "dtn": not tuples})
        return None
    try:
        tree = RB.decode_all(node, data)
        sh.count("ref_decoded")
    except RB.DecodeError as e:
        if prop == "C02":
            sh.violation("not-spec-encoding", "independent decoder rejects the bytes: %s" % e,
                         {"schema": js, "datum": datum, "bytes": data})
            return None
        tree = RC.from_datum(node, datum, tuples)
        sh.count("ref_decode_failed_fallback")
    expected = RC.normalise(node, datum, tree, tuples)
    return data, tree, expected, schema_arg


def read_one(fa, stream, schema_arg):
    # valid text decodes the same under every handling of undecodable text
    k = getattr(stream, "_vf_k", 0)
    if k % 5 == 3:
        return fa.schemaless_reader(stream, schema_arg, handle_unicode_errors="replace")
    if k % 5 == 4:
        return fa.schemaless_reader(stream, schema_arg, handle_unicode_errors="ignore")
    return fa.schemaless_reader(stream, schema_arg)


def one_case(sh, fa, case, parsed):
    js, node, datum = case["schema"], case["node"], case["datum"]
    res = check_roundtrip(sh, fa, case, parsed)
    if res is None:
        return None
    data, tree, expected, schema_arg = res
    if tree[2] is None:
        tree = None
    stream = ReadOnlyStream(data + SENTINEL)
    stream._vf_k = len(data)
    st, got = guard(read_one, fa, stream, schema_arg)
    info = {"schema": js, "datum": datum, "parsed": parsed, "dtn": bool(case.get("dtn"))}
    if st == "exc":
        sh.violation("reader-raised", "schemaless_reader raised %s on the writer's own bytes %s"
                     % (exc_name(got), data[:60].hex()), info)
        return None
    if not RC.same(got, expected):
        sh.violation("roundtrip-differs", "read back %s, expected %s" % (printable(got, 300), printable(expected, 300)), info)
        return None
    # the normalisation is judged under the branches the bytes select (A1); those branches must
    # at least be ones the datum conforms to, otherwise "equal after normalisation" is vacuous
    from .c02 import branch_conformance
    bad = branch_conformance(sh, node, datum, tree, (), not case.get("dtn")) if tree is not None else None
    if bad:
        sh.violation("written-under-nonconforming-branch", bad, info)
        return None
    if stream.pos != len(data):
        sh.violation("consumed-wrong-length", "reader consumed %d bytes, writer produced %d" % (stream.pos, len(data)), info)
        return None
    if stream.foreign:
        sh.count("reader_foreign_attr_" + stream.foreign[0])
    sh.count("cases_checked")
    sh.count("stream_reads_logged", stream.calls)
    return data, expected, schema_arg


def run_shard(spec):
    import fastavro as fa

    sh = Shard(PID, spec)
    if "replay" in spec:
        return replay(sh, fa, spec["replay"])
    rng = rng_for("C01", spec["seed"], spec["shard"])
    cases = []
    if spec.get("boundary"):
        for js, d, feats in boundary_cases():
            node, env = RS.build(js)
            cases.append({"schema": js, "node": node, "env": env, "datum": d, "features": set(feats)})
    nb = len(cases)
    pending = []  # (data, expected, schema_arg) for back-to-back streams
    i = 0
    while i < spec["n"] + nb and not (i >= nb and sh.out_of_time()):
        if i < nb:
            case = cases[i]
        elif rng.random() < 0.15:
            # tuple notation switched off: tuples are sequences everywhere, hints are not generated
            case = gen_case(rng, SOPTS, dict(DOPTS, hints=0.0, no_tuples=True))
            case["dtn"] = True
            sh.count("tuple_notation_off_cases")
        else:
            case = gen_case(rng, SOPTS, DOPTS)
        i += 1
        feats = case["features"]
        parsed = rng.random() < 0.5
        hsh = h64(schema_shape(case["schema"]), datum_shape(case["datum"]), parsed)
        sh.case(hsh, nontrivial(case["schema"], feats))
        sh.feat(feats)
        if any(f.startswith("boundary") or f.startswith("coll_") or f.startswith("union_") for f in feats):
            sh.count("boundary_cases")
        if "omitted_default" in feats or "omit_mask" in feats:
            sh.count("omitted_default_cases")
        if "recursive" in feats:
            sh.count("recursive_cases")
        if "by_name_ref" in feats:
            sh.count("by_name_cases")
        if "big_collection" in feats or "coll_big" in feats:
            sh.count("big_collections")
        filled = known.neutralise_bytes_defaults(case) if RC.has_bytes_default(case["node"]) else case
        r = sh.run_case(sh.with_finding, KNOWN_BYTES_DEFAULT, RC.has_bytes_default(case["node"]),
                        lambda s_: one_case(s_, fa, case, parsed), lambda s_: one_case(s_, fa, filled, parsed))
        if i % 500 == 1:
            sh.sample({"schema": case["schema"], "datum": printable(case["datum"], 300), "parsed": parsed})
        if r is not None:
            pending.append((r, case))
        # back-to-back: 2..6 values (different schemas) on one stream
        if len(pending) >= rng.randint(2, 6):
            blob = b"".join(p[0][0] for p in pending)
            stream = ReadOnlyStream(blob + SENTINEL)
            ok = True
            off = 0
            for (data, expected, schema_arg), c in pending:
                st, got = guard(read_one, fa, stream, schema_arg)
                off += len(data)
                if st == "exc" or not RC.same(got, expected) or stream.pos != off:
                    sh.violation("back-to-back-differs",
                                 "value %s of a %d-value stream: got %s expected %s pos %d expected %d"
                                 % (pending.index(((data, expected, schema_arg), c)), len(pending),
                                    printable(got, 200), printable(expected, 200), stream.pos, off),
                                 {"stream": [{"schema": c["schema"], "datum": c["datum"]} for _, c in pending]})
                    ok = False
                    break
            if ok and stream.read(len(SENTINEL) + 1) != SENTINEL:
                sh.violation("sentinel-damaged", "bytes after the last value were consumed", {"n": len(pending)})
            sh.count("back_to_back_streams")
            sh.count("back_to_back_values", len(pending))
            pending = []
    return sh.result()


def replay(sh, fa, rep):
    import base64, pickle

    info = pickle.loads(base64.b64decode(rep["pickle"]))
    items = info["stream"] if "stream" in info else [info]
    for it in items:
        node, env = RS.build(it["schema"])
        case = {"schema": it["schema"], "node": node, "env": env, "datum": it["datum"], "features": set(), "dtn": it.get("dtn", False)}
        for parsed in ([it["parsed"]] if "parsed" in it else [False, True]):
            sh.case(None)
            one_case(sh, fa, case, parsed)
    return sh.result()

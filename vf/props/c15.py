"""C15 — the JSON codec emits the specification's JSON encoding, round-trips,
agrees with the binary codec and fills defaults for absent keys."""
import copy
import io
import json
import random

from ..harness import Shard, rng_for, h64, schema_shape, datum_shape, printable, guard, exc_name
from ..gen.cases import gen_case
from ..gen.datum import DatumGen
from ..ref import schema as RS, binary as RB, conform as RC, jsonenc as RJ
from ..ref.schema import deref
from .. import known

PID = "C15"
LEVEL = "exploration"
RULE = (
    "generated schemas of every top-level kind (nested arrays/maps/unions/records, by-name "
    "references, recursive types to depth 1-5, records without fields, empty-string map keys, map "
    "keys equal to field names, second uses of a named type) x lists of 1-4 conforming records x "
    "write_union_type. Oracle: each line of json_writer's text json-equals (numbers by value, key "
    "order ignored) the independent JSON encoding of the value tree (branches learned from the "
    "binary encoding of the same datum); json_reader(text) == the records read from the binary "
    "encoding (floats at single precision); deleting from every line any subset of top-level keys "
    "whose fields have defaults yields the defaults for every record; write_union_type=False text "
    "== the plain projection. distinct = hash(schema shape, datum classes, write_union_type, "
    "deleted keys); non-trivial = schema has a union, map, bytes/fixed or nested record."
)
ASSUMPTIONS = [
    "non-finite floats have no specified JSON encoding: excluded from the text comparison (A25)",
    "logical-type schemas are not used here",
]
N = {"quick": 32000, "thorough": 800000}
TIME_LIMIT = {"quick": 40, "thorough": 560}
SHARDS = 16
REACH = {
    "quick": {"texts_compared": 5000, "roundtrips": 5000, "binary_agreement": 5000, "default_fill_checked": 300,
              "multi_record_texts": 1500, "plain_projection_checked": 1000},
    "thorough": {"texts_compared": 150000},
}


def plan(tier, seed):
    n = N[tier]
    return [{"shard": i, "n": n // SHARDS, "seed": seed, "tier": tier, "time_limit": TIME_LIMIT[tier], "witness": i == 0}
            for i in range(SHARDS)]


def nontrivial(js):
    s = json.dumps(js)
    return any(x in s for x in ('"map"', '"bytes"', '"fixed"', '"record"')) or isinstance(js, list) or "[" in s


def one_case(sh, fa, rng, case, recs, skip_nested_union_defaults=False, force_delete=None):
    """Returns None when fine, or a (kind, detail, info) triple describing the violation."""
    js, node = case["schema"], case["node"]
    info = {"schema": js, "records": recs}
    # binary side: trees and the values a binary reader returns
    trees, bvals = [], []
    for d in recs:
        out = io.BytesIO()
        st, err = guard(fa.schemaless_writer, out, copy.deepcopy(js), d)
        if st == "exc":
            return None  # C01's business
        try:
            t = RB.decode_all(node, out.getvalue())
        except RB.DecodeError:
            return None
        trees.append(t)
        bvals.append(RB.to_py(node, t))
    so = io.StringIO()
    st, err = guard(fa.json_writer, so, copy.deepcopy(js), list(recs))
    if st == "exc":
        return ("json-writer-raised", "json_writer raised %s" % exc_name(err), info)
    text = so.getvalue()
    lines = text.split("\n") if text else []
    if len(lines) != len(recs):
        return ("json-line-count", "%d lines for %d records: %r" % (len(lines), len(recs), text[:200]), info)
    for line, t in zip(lines, trees):
        try:
            doc = json.loads(line)
        except ValueError as e:
            return ("json-text-invalid", "%s: %r" % (e, line[:200]), info)
        if RJ.has_nonfinite(t):
            sh.count("nonfinite_text_skipped")
            continue
        bad = RJ.doc_matches(node, t, doc, True)
        if bad:
            return ("json-text-differs", "%s; wrote %s, specification encoding is %s" % (bad, line[:250], json.dumps(RJ.encode(node, t, True))[:250]), info)
        sh.count("texts_compared")
    if len(recs) > 1:
        sh.count("multi_record_texts")

    def read(txt):
        return list(fa.json_reader(io.StringIO(txt), copy.deepcopy(js)))

    st, got = guard(read, text)
    if st == "exc":
        return ("json-reader-raised", "json_reader raised %s on json_writer's own text %s" % (exc_name(got), text[:200]), info)
    if len(got) != len(recs) or not all(RJ.values_equal(node, g, b) for g, b in zip(got, bvals)):
        return ("json-roundtrip-differs", "json_reader returned %s, binary codec returns %s" % (printable(got, 250), printable(bvals, 250)), info)
    sh.count("roundtrips")
    sh.count("binary_agreement", len(recs))
    # write_union_type=False == plain projection
    if rng.random() < 0.3:
        so2 = io.StringIO()
        st, err = guard(fa.json_writer, so2, copy.deepcopy(js), list(recs), write_union_type=False)
        if st == "exc":
            return ("json-writer-raised", "write_union_type=False: %s" % exc_name(err), info)
        for line, t in zip(so2.getvalue().split("\n"), trees):
            if RJ.has_nonfinite(t):
                continue
            bad = RJ.doc_matches(node, t, json.loads(line), False)
            if bad:
                return ("plain-projection-differs", "%s; wrote %s, plain projection is %s" % (bad, line[:250], json.dumps(RJ.encode(node, t, False))[:250]), info)
        sh.count("plain_projection_checked")
    # defaults for deleted keys
    nd = deref(node)
    if nd.kind == "record" and not any(RJ.has_nonfinite(t) for t in trees):
        dflt = [f for f in nd.fields if f.has_default]
        if skip_nested_union_defaults:
            defs = known._walk_defs(js)
            dflt = [f for f in dflt if not known.has_nested_union(f.raw["type"], True, defs, nd.ns)]
        if dflt:
            chosen = [f for f in dflt if rng.random() < 0.6] or dflt[:1]
            if force_delete:
                chosen = [f for f in dflt if f.name in force_delete] or chosen
            docs = [json.loads(l) for l in lines]
            for doc in docs:
                for f in chosen:
                    doc.pop(f.name, None)
            txt = "\n".join(json.dumps(d) for d in docs)
            before = copy.deepcopy(js)
            st, got = guard(read, txt)
            info2 = dict(info, deleted=[f.name for f in chosen], text=txt[:400])
            if st == "exc":
                return ("default-fill-raised", "json_reader raised %s when keys %s are absent" % (exc_name(got), [f.name for f in chosen]), info2)
            for g, b in zip(got, bvals):
                want = dict(b)
                for f in chosen:
                    # a union default belongs to the first branch (specification) - or, as the
                    # binary writer treats it, to the branch the C09 rule picks: either is accepted
                    alts = []
                    try:
                        alts.append(RB.to_py(f.type, RC.from_datum(f.type, f.default)))
                    except Exception:
                        pass
                    ft = deref(f.type)
                    if ft.kind == "union" and ft.branches:
                        try:
                            if RC.conforms(ft.branches[0], f.default):
                                alts.append(RB.to_py(ft.branches[0], RC.from_datum(ft.branches[0], f.default)))
                        except Exception:
                            pass
                    hit = [a for a in alts if RJ.values_equal(f.type, g.get(f.name) if isinstance(g, dict) else None, a)]
                    want[f.name] = hit[0] if hit else (alts[0] if alts else None)
                if not RJ.values_equal(node, g, want):
                    return ("default-not-filled", "absent keys %s: read %s, expected %s" % ([f.name for f in chosen], printable(g, 250), printable(want, 250)), info2)
            sh.count("default_fill_checked")
    return None


def run_shard(spec):
    import fastavro as fa

    sh = Shard(PID, spec)
    rng = rng_for("C15", spec["seed"], spec["shard"])
    if "replay" in spec:
        import base64, pickle

        info = pickle.loads(base64.b64decode(spec["replay"]["pickle"]))
        node, env = RS.build(info["schema"])
        sh.case(None)
        seed = info.get("case_seed", 7)
        v = one_case(sh, fa, random.Random(seed), {"schema": info["schema"], "node": node, "features": set()}, info["records"])
        if v:
            key = known.classify("C15", fa, v, {"schema": info["schema"], "node": node}, info["records"], one_case, sh, seed)
            sh.violation(v[0], v[1], v[2], known_key=key)
        return sh.result()
    if spec.get("witness"):
        for key, (js, recs) in known.witnesses("C15").items():
            node, env = RS.build(js)
            case = {"schema": js, "node": node, "features": set()}
            v = sh.run_case(one_case, sh, fa, random.Random(7), case, recs, force_delete=["m"])
            if v:
                k2 = known.classify("C15", fa, v, case, recs, one_case, sh, 7)
                sh.violation(v[0], v[1], v[2], known_key=k2, what="%s: %s" % (v[0], v[1][:150]))
            sh.count("known_witnesses_replayed")
    if spec.get("witness"):
        # long record lists in one call (one JSON document per record, whatever the count)
        for js, recs in (("int", list(range(5000))), ({"type": "record", "name": "Row", "fields": [{"name": "i", "type": "int"}, {"name": "s", "type": ["null", "string"]}]},
                                                    [{"i": i, "s": None if i % 3 else "s%d" % i} for i in range(4100)]),
                         (["null", "long"], [None if i % 5 == 0 else i for i in range(4200)])):
            node, env = RS.build(js)
            case = {"schema": js, "node": node, "features": set()}
            v = sh.run_case(one_case, sh, fa, random.Random(5), case, recs)
            if v:
                sh.violation(v[0], v[1][:600], {"schema": js, "records": "%d records" % len(recs)})
            sh.count("long_record_lists")
        # values that need no encoder / decoder call of their own, at every nesting the codec knows
        E = {"type": "record", "name": "Empty", "fields": []}
        W = {"type": "record", "name": "Wrap", "fields": [{"name": "a", "type": E}, {"name": "b", "type": "Empty"}]}
        WW = {"type": "record", "name": "Wrap2", "fields": [{"name": "w", "type": W}]}
        shapes = [(E, {}), (W, {"a": {}, "b": {}}), (WW, {"w": {"a": {}, "b": {}}})]
        for inner, val in shapes:
            for outer, mk in (("map", lambda v: {"k": v, "": v}), ("array", lambda v: [v, v]), ("mapmap", lambda v: {"x": {"k": v}, "y": {}}),
                              ("arraymap", lambda v: [{"k": v}, {}]), ("maparray", lambda v: {"k": [v, v], "j": []}), ("union", lambda v: v),
                              ("rec_last", lambda v: {"n": 1, "z": v}), ("rec_first", lambda v: {"z": v, "n": 1}), ("maprec", lambda v: {"k": {"n": 1, "z": v}})):
                t = copy.deepcopy(inner)
                js = {"map": {"type": "map", "values": t}, "array": {"type": "array", "items": t},
                      "mapmap": {"type": "map", "values": {"type": "map", "values": t}},
                      "arraymap": {"type": "array", "items": {"type": "map", "values": t}},
                      "maparray": {"type": "map", "values": {"type": "array", "items": t}},
                      "union": ["null", t],
                      "rec_last": {"type": "record", "name": "Top", "fields": [{"name": "n", "type": "int"}, {"name": "z", "type": t}]},
                      "rec_first": {"type": "record", "name": "Top", "fields": [{"name": "z", "type": t}, {"name": "n", "type": "int"}]},
                      "maprec": {"type": "map", "values": {"type": "record", "name": "Top", "fields": [{"name": "n", "type": "int"}, {"name": "z", "type": t}]}}}[outer]
                try:
                    node, env = RS.build(js)
                except Exception:
                    continue
                recs = [mk(val), mk(val)] + ([None] if outer == "union" else [])
                case = {"schema": js, "node": node, "features": set()}
                v = sh.run_case(one_case, sh, fa, random.Random(3), case, recs)
                if v:
                    k2 = sh.run_case(known.classify, "C15", fa, v, case, recs, one_case, sh, 3)
                    sh.violation(v[0], v[1], v[2], known_key=k2, what="%s: %s" % (v[0], v[1][:150]))
                sh.count("no_call_value_shapes")
    i = 0
    while i < spec["n"] and not sh.out_of_time():
        i += 1
        case = gen_case(rng, dict(bytes_defaults=0.0, max_depth=4, max_nodes=20), dict(size_budget=40, big=0.0, mappings=0.0))
        node = case["node"]
        recs = [case["datum"]]
        for _ in range(rng.choice([0, 0, 1, 2, 3])):
            d = DatumGen(rng, size_budget=40, big=0.0, mappings=0.0).gen(node)
            if not RC.float_out_of_range(node, d):
                recs.append(d)
        if rng.random() < 0.02:
            recs = []  # an empty text must read back as no records
        sh.case(h64(schema_shape(case["schema"]), datum_shape(recs[0]) if recs else "empty", len(recs)), nontrivial(case["schema"]))
        sh.feat(case["features"])
        seed = rng.getrandbits(48)
        v = sh.run_case(one_case, sh, fa, random.Random(seed), case, recs)
        if v:
            key = sh.run_case(known.classify, "C15", fa, v, case, recs, one_case, sh, seed)
            sh.violation(v[0], v[1], dict(v[2], case_seed=seed), known_key=key, what="%s: %s" % (v[0], v[1][:150]))
        if i % 250 == 1:
            sh.sample({"schema": case["schema"], "records": printable(recs, 200)})
    return sh.result()

"""C14 — fingerprints equal the spec's CRC-64-AVRO and the named digests."""
import hashlib

from ..harness import Shard, rng_for, h64, printable, guard, exc_name
from ..gen.schema import gen_schema
from ..ref import pcf as RP

PID = "C14"
LEVEL = "exploration"
RULE = (
    "texts = the empty text, random Unicode scalar strings over all planes (no lone "
    "surrogates) of length 0..200, ASCII-only and multi-byte-heavy classes, canonical forms of "
    "generated schemas, the Apache vectors, and byte-walk texts that drive the running CRC state "
    "through every table index. For each text: fingerprint(text,'CRC-64-AVRO') == bit-serial "
    "(table-free) Rabin fingerprint of the UTF-8 bytes as 16 hex digits little-endian; for every "
    "advertised algorithm with a fixed digest size plus 'MD5' and 'SHA-256': == hashlib digest of "
    "the UTF-8 bytes; unknown names (case variants, hyphen variants, '', random strings) raise "
    "ValueError. distinct = text hash x algorithm; non-trivial = text non-empty."
)
ASSUMPTIONS = [
    "'every advertised algorithm with a fixed digest length' = FINGERPRINT_ALGORITHMS minus names whose hashlib digest_size is 0 (shake_*) (A24)",
]
N = {"quick": 24000, "thorough": 2400000}
TIME_LIMIT = {"quick": 30, "thorough": 300}
SHARDS = 16
REACH = {
    "quick": {"crc_compared": 20000, "digest_compared": 20000, "unknown_names_rejected": 300,
              "table_indices_hit": 256, "non_ascii_texts": 3000, "long_non_ascii_texts": 100, "canonical_form_texts": 1000, "apache_fingerprints": 12},
    "thorough": {"crc_compared": 1000000},
}
APACHE = {'"null"': 7195948357588979594, '"boolean"': -6970731678124411036, '"int"': 8247732601305521295,
          '"long"': -3434872931120570953, '"float"': 5583340709985441680, '"double"': -8181574048448539266,
          '"bytes"': 5746618253357095269, '"string"': -8142146995180207161, '[]': -1241056759729112623,
          '["int"]': -5232228896498058493, '["int","boolean"]': 5392556393470105090,
          '{"name":"foo","type":"record","fields":[]}': -4824392279771201922}


def plan(tier, seed):
    n = N[tier]
    return [{"shard": i, "n": n // SHARDS, "seed": seed, "tier": tier, "boundary": i == 0, "time_limit": TIME_LIMIT[tier]}
            for i in range(SHARDS)]


def coverage_extra(tier, counters):
    return {"table_indices_hit_of_256": min(256, counters.get("table_index_union", 0))}


def rand_text(rng):
    x = rng.random()
    if x < 0.02:
        # long texts around buffer-size boundaries (canonical forms of big schemas are this long)
        n = rng.choice([4095, 4096, 4097, 8191, 8192, 8193, 12000, 16384, 20000])
        c = rng.choice(["a", "\u00e9", "\u20ac", "\ufb01", "\U0001f600"])
        if rng.random() < 0.5:
            return c * n
        return "".join(rng.choice(["a", "Z", c, c, "\u0416"]) for _ in range(n))
    if x < 0.06:
        # texts that look like something a well-meaning implementation might "normalise": literal
        # backslash escapes, byte order marks, percent escapes, JSON with escaped quotes
        frag = ["\\u00e9", "\\u0041", "\\ud800", "\\n", "\\\\", "\ufeff", "%41", "&amp;", "\\x41", "\\U0001f600", '\\"', "\r\n", "\x00", " ", "\t"]
        return "".join(rng.choice(frag + ['{"name":"caf', '"}', "a", "Z"]) for _ in range(rng.randint(1, 8)))
    n = rng.choice([0, 1, 2, 3, 5, 8, 13, 40, 200]) if x < 0.8 else rng.randint(0, 60)
    cls = rng.random()
    out = []
    for _ in range(n):
        if cls < 0.3:
            c = rng.randint(0x20, 0x7E)
        elif cls < 0.5:
            c = rng.choice([rng.randint(0, 0x7F), rng.randint(0x80, 0x7FF)])
        else:
            c = rng.choice([rng.randint(0, 0x7F), rng.randint(0x80, 0x7FF), rng.randint(0x800, 0xD7FF),
                            rng.randint(0xE000, 0xFFFF), rng.randint(0x10000, 0x10FFFF)])
        out.append(chr(c))
    return "".join(out)


def check_text(sh, fa_fp, algos, text, seen_idx, rng, every_algo=False):
    data = text.encode("utf-8")
    # bit-serial model, recording the table index each byte selects
    fp = RP.EMPTY64
    for b in data:
        seen_idx.add((fp ^ b) & 0xFF)
        fp ^= b
        for _ in range(8):
            fp = (fp >> 1) ^ (RP.EMPTY64 & -(fp & 1))
    want = fp.to_bytes(8, "little").hex()
    info = {"text": text}
    st, got = guard(fa_fp, text, "CRC-64-AVRO")
    if st == "exc" or got != want:
        sh.violation("crc64-differs", "fingerprint(%s) = %s, specification gives %s" % (printable(text, 80), exc_name(got) if st == "exc" else got, want), info)
        return False
    sh.count("crc_compared")
    if not text.isascii():
        sh.count("non_ascii_texts")
        if len(text) >= 4095:
            sh.count("long_non_ascii_texts")
    for a in (algos if every_algo else rng.sample(algos, 3)):
        name = {"MD5": "md5", "SHA-256": "sha256"}.get(a, a)
        want = hashlib.new(name, data).hexdigest()
        st, got = guard(fa_fp, text, a)
        if st == "exc" or got != want:
            sh.violation("digest-differs", "fingerprint(%s, %r) = %s, hashlib gives %s" % (printable(text, 60), a, exc_name(got) if st == "exc" else got, want), dict(info, algorithm=a))
            return False
        sh.count("digest_compared")
    sh.case(h64(text) if len(text) < 300 else None, bool(text))
    return True


def temporaries_checked(sh, fa_fp, algos, rng):
    import random as _random

    def crc(data):
        fp = RP.EMPTY64
        for b in data:
            fp ^= b
            for _ in range(8):
                fp = (fp >> 1) ^ (RP.EMPTY64 & -(fp & 1))
        return fp.to_bytes(8, "little").hex()

    seed = rng.getrandbits(40)
    base = rng.choice(['{"type":"fixed","name":"F","size":%05d}', "text-%05d-é", "%05d"])
    algs = ["CRC-64-AVRO"] + rng.sample(algos, 2)
    r1, r2 = _random.Random(seed), _random.Random(seed)
    got = []
    for i in range(300):
        # a temporary string, released as soon as the call returns
        got.append(guard(fa_fp, base % r1.randrange(100000), algs[i % 3]))
    for i, (st, g) in enumerate(got):
        text = base % r2.randrange(100000)
        a = algs[i % 3]
        want = crc(text.encode("utf-8")) if a == "CRC-64-AVRO" else hashlib.new({"MD5": "md5", "SHA-256": "sha256"}.get(a, a), text.encode("utf-8")).hexdigest()
        sh.count("temporary_texts")
        if st == "exc" or g != want:
            sh.violation("digest-differs" if a != "CRC-64-AVRO" else "crc64-differs",
                         "call %d of a run over temporary texts of one length: fingerprint(%r, %r) = %s, expected %s" % (i, text, a, exc_name(g) if st == "exc" else g, want),
                         {"text_arg": text, "algorithm": a, "history": "temporaries"})
            return


def unknown_names(sh, fa_fp, algos, rng):
    known = set(algos) | {"CRC-64-AVRO"}
    cands = ["", " ", "crc-64-avro", "CRC64", "CRC-64", "Crc-64-Avro", "SHA256", "sha-256", "Sha256", "SHA-1", "sha-1",
             "SHA1", "md-5", "Md5", "MD-5", "SHA-512", "SHA512", "sha_256", "BLAKE2B", "Blake2b", "sha3-256", "SHA3_256",
             "shake_128x", "none", "null", "md5 ", " md5", "md5\n", "MD5\x00", "rabin", "CRC-64-AVRO "]
    for a in list(algos):
        cands += [a.upper(), a.title(), a.replace("_", "-"), a + "x", a[:-1]]
    # what the local hashlib / OpenSSL happens to offer beyond the advertised set is unknown too
    cands += sorted(set(hashlib.algorithms_available) - known)
    # names that upset string formatting of the error message
    cands += ["sha%d", "%s", "md5%s", "%(alg)s", "{}", "{0}", "{algorithm}", "%", "100%", "%%", "sha\\256", "a" * 5000]
    for _ in range(20):
        cands.append("".join(rng.choice("abcdefXYZ-_0123456789") for _ in range(rng.randint(1, 10))))
    for name in cands:
        if name in known or name in ("shake_128", "shake_256"):
            continue
        for attempt in (1, 2, 3):  # a name that was refused once stays refused
            # (the text may itself be spelled like an algorithm name: it is still the text)
            text = rng.choice(["", '"int"', "é"] + sorted(known) + [name, "md5", "sha256"])
            st, got = guard(fa_fp, text, name)
            if st == "ok" or not isinstance(got, ValueError):
                sh.violation("unknown-algorithm-accepted", "fingerprint(.., %r) -> %s instead of ValueError (call %d with that name)" % (name, got if st == "ok" else exc_name(got), attempt), {"algorithm": name, "text_arg": text})
                return
        sh.count("unknown_names_rejected")
        sh.case(h64("unknown", name), True)


def run_shard(spec):
    import fastavro.schema as fs

    sh = Shard(PID, spec)
    rng = rng_for("C14", spec["seed"], spec["shard"])
    fa_fp = fs.fingerprint
    algos = sorted(a for a in fs.FINGERPRINT_ALGORITHMS
                   if a != "CRC-64-AVRO" and hashlib.new({"MD5": "md5", "SHA-256": "sha256"}.get(a, a)).digest_size > 0)
    if "MD5" not in algos or "SHA-256" not in algos:
        sh.violation("java-spelling-not-advertised", "FINGERPRINT_ALGORITHMS lacks MD5/SHA-256: %r" % algos, {})
    seen_idx = set()
    if "replay" in spec:
        import base64, pickle

        info = pickle.loads(base64.b64decode(spec["replay"]["pickle"]))
        if "text" in info:
            check_text(sh, fa_fp, algos, info["text"], seen_idx, rng, True)
        else:
            unknown_names(sh, fa_fp, algos, rng)
        return sh.result()
    sh.run_case(unknown_names, sh, fa_fp, algos, rng)
    for _ in range(3):
        sh.run_case(temporaries_checked, sh, fa_fp, algos, rng)
    sh.run_case(check_text, sh, fa_fp, algos, "", seen_idx, rng, True)
    st, got = guard(fa_fp, "", "CRC-64-AVRO")
    if st == "ok" and got != RP.EMPTY64.to_bytes(8, "little").hex():
        sh.violation("empty-text-not-seed", got, {"text": ""})
    if spec.get("boundary"):
        for text, v in APACHE.items():
            want = (v & ((1 << 64) - 1)).to_bytes(8, "little").hex()
            st, got = guard(fa_fp, text, "CRC-64-AVRO")
            if st == "exc" or got != want:
                sh.violation("apache-vector-differs", "%s -> %s, Apache table %s" % (text, got, want), {"text": text})
            else:
                sh.count("apache_fingerprints")
    if spec["shard"] in (1, 2):
        # texts around sizes an implementation may cut its work at (64 Ki characters / bytes)
        for n in ((65535, 65536, 65537) if spec["shard"] == 1 else (131071, 131073, 200001)):
            for unit in ("a", "é", '{"x":1}'):
                text = (unit * (n // len(unit) + 1))[:n]
                sh.count("texts_over_64k")
                if not sh.run_case(check_text, sh, fa_fp, algos, text, seen_idx, rng, False):
                    break
    if spec["shard"] == 3:
        # a text that cannot be encoded (lone surrogate) leaves every algorithm usable
        for a in ["CRC-64-AVRO"] + list(algos):
            for _ in range(2):
                # (such a text has no UTF-8 bytes: what the call does with it is not judged, only
                # what it leaves behind)
                st, got = guard(fa_fp, "bad \ud800 text", a)
            sh.count("unencodable_texts_tried")
        sh.run_case(check_text, sh, fa_fp, algos, "after the failures", seen_idx, rng, True)
        sh.run_case(check_text, sh, fa_fp, algos, "", seen_idx, rng, True)
    i = 0
    while i < spec["n"] and not sh.out_of_time():
        i += 1
        if i % 12 == 0:
            js, _f = gen_schema(rng, max_nodes=12)
            text = RP.pcf(js)
            sh.count("canonical_form_texts")
        elif i % 12 == 1:
            # byte-walk: a text whose next byte steers the state to a chosen table index
            text = rand_text(rng)
            fp = RP.crc64(text.encode("utf-8"))
            want_idx = rng.randrange(256)
            b = (fp ^ want_idx) & 0xFF
            if b < 0x80:
                text += chr(b)
        else:
            text = rand_text(rng)
        if not sh.run_case(check_text, sh, fa_fp, algos, text, seen_idx, rng, i % 50 == 0):
            break
        if i % 2000 == 1:
            sh.sample({"text": text[:60], "crc64": RP.crc64_hex(text)})
    sh.counters["table_index_union"] = len(seen_idx)
    sh.counters["table_indices_hit"] = len(seen_idx)
    return sh.result()

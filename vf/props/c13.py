"""C13 — parsing canonical form equals the specification's transformation and
is invariant under cosmetic edits."""
import copy
import io
import json
import os

from ..harness import Shard, rng_for, h64, schema_shape, printable, guard, exc_name
from ..gen.cases import gen_case
from ..gen.rewrite import rewrite
from ..ref import schema as RS, conform as RC, pcf as RP

PID = "C13"
LEVEL = "exploration"
RULE = (
    "generated schemas (all namespace spellings, references, recursion, defaults, docs, aliases, "
    "custom attributes, dict-form primitives, logical attributes) plus the Apache canonical-form "
    "vectors: (1) to_parsing_canonical_form(text) == the independent canonicaliser's text, for "
    "raw and parsed input, and for record schemas assembled from separately parsed named types "
    "(random subset of the separable definitions, shared named_schemas); (2) re-applying it to json.loads(output) is a fixed point; (3) bytes "
    "written under the schema and under its canonical form are identical and decode to the same "
    "value under the other; (4) three random cosmetic rewrites per schema (doc, aliases, defaults, "
    "order, custom/logical attributes, attribute order, namespace+name <-> dotted, inherited <-> "
    "spelled-out namespace, relative <-> qualified references, dict <-> string primitives) leave "
    "the output unchanged. distinct = hash(schema shape, rewrite kinds); non-trivial = >=1 named "
    "type or >=1 rewrite."
)
ASSUMPTIONS = [
    "schemas with a null-namespace type nested in a namespaced one are kept in the exact-text check only (the spec's own transformation is not re-parseable there, A23)",
    "cross-decoding uses data without logical Python types and with every field present",
]
N = {"quick": 32000, "thorough": 640000}
TIME_LIMIT = {"quick": 40, "thorough": 480}
SHARDS = 16
REACH = {
    "quick": {"text_compared": 6000, "fixed_points": 4000, "cross_decoded": 3000, "rewrites_compared": 15000,
              "apache_vectors": 13, "rewrite_kind_name_spelling": 500, "rewrite_kind_ref_qualified": 100,
              "rewrite_kind_inherited_spelled_out": 200, "piecewise_text_compared": 1000, "piecewise_text_compared_2plus_pieces": 300, "error_kind_text_compared": 300, "extreme_attribute_cases": 30},
    "thorough": {"text_compared": 200000},
}


def plan(tier, seed):
    n = N[tier]
    return [{"shard": i, "n": n // SHARDS, "seed": seed, "tier": tier, "boundary": i == 0, "time_limit": TIME_LIMIT[tier]}
            for i in range(SHARDS)]


def wb(fa, schema, d):
    out = io.BytesIO()
    fa.schemaless_writer(out, schema, d)
    return out.getvalue()


def has_null_ns_inside(js, ns=""):
    """A named type in the null namespace nested inside a namespaced one (A23)."""
    if isinstance(js, list):
        return any(has_null_ns_inside(b, ns) for b in js)
    if isinstance(js, dict):
        t = js.get("type")
        if t in ("record", "error", "enum", "fixed"):
            name = js.get("name", "")
            own = name.rpartition(".")[0] if "." in name else js.get("namespace", ns)
            if ns and not own:
                return True
            return any(has_null_ns_inside(f["type"], own) for f in js.get("fields", []) or [])
        if t == "array":
            return has_null_ns_inside(js["items"], ns)
        if t == "map":
            return has_null_ns_inside(js["values"], ns)
    return False


def one_case(sh, fa, rng, case):
    from fastavro.schema import to_parsing_canonical_form as tpcf

    js = case["schema"]
    feats = case["features"]
    info = {"schema": js}
    want = RP.pcf(js)
    st, got = guard(tpcf, copy.deepcopy(js))
    if st == "exc":
        sh.violation("canonical-form-raised", exc_name(got), info)
        return
    if got != want:
        sh.violation("canonical-form-differs", "library: %s  specification: %s" % (got[:400], want[:400]), info)
        return
    st, parsed = guard(fa.parse_schema, copy.deepcopy(js))
    if st == "ok":
        st, got2 = guard(tpcf, parsed)
        if st == "exc" or got2 != want:
            sh.violation("canonical-form-differs", "from the parsed schema: %s" % (exc_name(got2) if st == "exc" else got2[:300]), info)
            return
    sh.count("text_compared")
    # the same schema assembled from separately parsed named types (shared named_schemas dict)
    if isinstance(js, dict) and js.get("type") in ("record", "error"):
        from .c12 import separable, build_piecewise

        sep = separable(js)[:5]
        if sep:
            subset = rng.sample(sep, rng.randint(1, len(sep)))
            try:
                pieces, rest = build_piecewise(js, subset)
            except (ValueError, KeyError, IndexError):
                pieces = None
            if pieces:
                shared = {}
                st = "ok"
                for pc in pieces + [rest]:
                    st, pw = guard(fa.parse_schema, pc, shared)
                    if st == "exc":
                        break
                if st == "ok":
                    st, got4 = guard(tpcf, pw)
                    if st == "exc" or got4 != want:
                        sh.violation("canonical-form-differs", "assembled from separately parsed types %s: %s  specification: %s"
                                     % (subset, exc_name(got4) if st == "exc" else got4[:300], want[:300]), dict(info, subset=subset))
                        return
                    sh.count("piecewise_text_compared")
                    if len(pieces) >= 2:
                        sh.count("piecewise_text_compared_2plus_pieces")
    kinds = set()
    for _ in range(3):
        js2, ks = rewrite(js, rng, rng.choice([0.2, 0.5, 0.8]))
        if RP.pcf(js2) != want:
            raise AssertionError("rewriter changed the canonical form under the model: %r" % (ks,))
        st, got3 = guard(tpcf, copy.deepcopy(js2))
        if st == "exc" or got3 != want:
            sh.violation("cosmetic-edit-changes-output", "after rewrites %s: %s  original: %s" % (sorted(ks), exc_name(got3) if st == "exc" else got3[:300], want[:300]),
                         {"schema": js, "rewritten": js2, "kinds": sorted(ks)})
            return
        kinds |= ks
        sh.count("rewrites_compared")
    for k in kinds:
        sh.count("rewrite_kind_" + k)
    sh.case(h64(schema_shape(js), tuple(sorted(kinds))), bool(kinds) or not isinstance(js, str))
    if "null_ns_inside_ns" in feats or has_null_ns_inside(js):
        sh.count("text_only_null_ns_inside_ns")
        return
    canon = json.loads(got)
    st, again = guard(tpcf, canon)
    if st == "exc" or again != got:
        sh.violation("not-a-fixed-point", "re-applied: %s" % (exc_name(again) if st == "exc" else again[:300]), info)
        return
    sh.count("fixed_points")
    # cross decoding
    d = case["datum"]
    if RC.raw_under_logical(case["node"], d) or any(n.logical for n in RS.walk(case["node"])):
        return
    try:
        st, b0 = guard(wb, fa, copy.deepcopy(js), d)
        if st == "exc":
            return  # C01's business
        v0 = fa.schemaless_reader(io.BytesIO(b0), copy.deepcopy(js))
        b1 = wb(fa, copy.deepcopy(js), v0)
    except Exception:
        return
    st, b2 = guard(wb, fa, canon, v0)
    if st == "exc":
        sh.violation("canonical-schema-encodes-differently", "under the canonical form the value cannot be written: %s" % exc_name(b2), dict(info, datum=v0))
        return
    if b2 != b1:
        # the statement sets defaults aside: without them a value may conform to fewer record
        # branches of a union and be written under another one; what must agree is the decoded value
        sh.count("cross_encoded_bytes_differ_values_judged")
    # bytes written under either schema decode to the same value under the other (each byte string is
    # read under both; re-writing a read-back value may legitimately pick another record branch, C09)
    for blob, wrote in ((b1, "the schema"), (b2, "its canonical form")):
        st, va = guard(fa.schemaless_reader, io.BytesIO(blob), canon)
        st2, vb = guard(fa.schemaless_reader, io.BytesIO(blob), copy.deepcopy(js))
        if st == "exc" or st2 == "exc" or not RC.same(va, vb):
            sh.violation("canonical-schema-decodes-differently", "bytes written under %s read as %s under the canonical form and %s under the schema"
                         % (wrote, exc_name(va) if st == "exc" else printable(va, 150), exc_name(vb) if st2 == "exc" else printable(vb, 150)), dict(info, datum=v0))
            return
    sh.count("cross_decoded")


def vectors(sh, fa):
    from fastavro.schema import to_parsing_canonical_form as tpcf

    path = os.path.join(os.path.dirname(os.path.dirname(__file__)), "ref", "apache_pcf_vectors.json")
    for js, want in json.load(open(path)):
        sh.case(h64("vector", want), True)
        if RP.pcf(js) != want:
            raise AssertionError("reference canonicaliser disagrees with an Apache vector")
        st, got = guard(tpcf, js)
        if st == "exc" or got != want:
            sh.violation("apache-vector-differs", "%s" % (exc_name(got) if st == "exc" else got[:300]), {"schema": js})
            return
        sh.count("apache_vectors")


def extremes(sh, fa):
    """Attribute values at the ends of their ranges: text compared with the independent canonicaliser."""
    from fastavro.schema import to_parsing_canonical_form as tpcf

    cases = []
    for size in (0, 1, 255, 65536, 999999, 1000000, 1000001, 1048576, 12345678, 16777216, 2**31 - 1, 2**40):
        cases.append({"type": "fixed", "name": "F", "namespace": "x", "size": size})
        cases.append({"type": "record", "name": "R", "fields": [{"name": "f", "type": ["null", {"type": "fixed", "name": "F", "size": size}]},
                                                                 {"name": "g", "type": {"type": "array", "items": "F"}}]})
    for syms in ([], ["A"], ["A", "B"], ["_", "__", "a1"], ["S%d" % i for i in range(300)]):
        cases.append({"type": "enum", "name": "E", "symbols": syms, "doc": "d", "aliases": ["Old"]})
        cases.append({"type": "record", "name": "R", "namespace": "n", "fields": [{"name": "e", "type": ["null", {"type": "enum", "name": "E", "symbols": syms}]},
                                                                                   {"name": "again", "type": {"type": "map", "values": "n.E"}}]})
    cases.append({"type": "record", "name": "NoFields", "fields": []})
    cases.append({"type": "record", "name": "Many", "fields": [{"name": "f%d" % i, "type": "int"} for i in range(400)]})
    for js in cases:
        want = RP.pcf(js)
        sh.case(h64("extreme", want[:200], len(want)), True)
        for arg in ("raw", "parsed"):
            a = copy.deepcopy(js)
            if arg == "parsed":
                st, a = guard(fa.parse_schema, a)
                if st == "exc":
                    sh.violation("canonical-form-raised", "parse_schema: %s" % exc_name(a), {"schema": js})
                    return
            st, got = guard(tpcf, a)
            if st == "exc" or got != want:
                sh.violation("canonical-form-differs", "library: %s  specification: %s" % (exc_name(got) if st == "exc" else got[:300], want[:300]), {"schema": js})
                return
        st, again = guard(tpcf, json.loads(want))
        if st == "exc" or again != want:
            sh.violation("not-a-fixed-point", "re-applied: %s" % (exc_name(again) if st == "exc" else again[:300]), {"schema": js})
            return
        sh.count("extreme_attribute_cases")


def run_shard(spec):
    import fastavro as fa
    from fastavro.schema import to_parsing_canonical_form as to_pcf

    sh = Shard(PID, spec)
    rng = rng_for("C13", spec["seed"], spec["shard"])
    if "replay" in spec:
        import base64, pickle

        info = pickle.loads(base64.b64decode(spec["replay"]["pickle"]))
        node, env = RS.build(info["schema"])
        for k in range(10):
            from ..gen.datum import DatumGen
            d = DatumGen(rng_for("r", k), omit_defaults=0.0).gen(node)
            one_case(sh, fa, rng_for("replay", k), {"schema": info["schema"], "node": node, "datum": d, "features": set()})
        return sh.result()
    if spec.get("boundary"):
        sh.run_case(vectors, sh, fa)
        sh.run_case(extremes, sh, fa)
    i = 0
    while i < spec["n"] and not sh.out_of_time():
        i += 1
        case = gen_case(rng, dict(bytes_defaults=0.0, null_ns_inside=0.05, logical=rng.random() < 0.2),
                        dict(omit_defaults=0.0, size_budget=40, big=0.0, mappings=0.0))
        sh.feat(case["features"])
        if rng.random() < 0.1 and "record" in repr(case["schema"]):
            # some records declared with the kind "error": compared as text only
            from ..gen.schema import errorize
            ejs = errorize(case["schema"], rng)
            want = RP.pcf(ejs)
            for arg in (copy.deepcopy(ejs), None):
                if arg is None:
                    st, arg = guard(fa.parse_schema, copy.deepcopy(ejs))
                    if st == "exc":
                        sh.violation("canonical-form-raised", "parse_schema: %s" % exc_name(arg), {"schema": ejs})
                        break
                st, got = guard(to_pcf, arg)
                if st == "exc" or got != want:
                    sh.violation("canonical-form-differs", "error-kind records: %s  specification: %s" % (exc_name(got) if st == "exc" else got[:300], want[:300]), {"schema": ejs})
                    break
            else:
                sh.count("error_kind_text_compared")
        sh.run_case(one_case, sh, fa, rng, case)
        if i % 150 == 1:
            sh.sample({"schema": case["schema"], "canonical": RP.pcf(case["schema"])[:300]})
    return sh.result()

"""C11 — parse_schema: accepts valid schemas, names per the specification,
rejects ill-formed ones with SchemaParseException / UnknownType."""
import copy
import json

from ..harness import Shard, rng_for, h64, schema_shape, printable, guard, exc_name
from ..gen.schema import gen_schema
from ..ref import schema as RS, pcf as RP
from ..ref.schema import PRIMS, split_name

PID = "C11"
LEVEL = "exploration"
RULE = (
    "valid schemas from the generator (namespace by attribute / dotted name / inherited through "
    "1-3 levels, references before and after nested definitions, recursion, every attribute, "
    "defaults incl. int defaults for float/double and dict-form primitives, logical annotations) "
    "must be accepted and the result must carry, at every named node, the full name computed by an "
    "independent resolver, at every reference the full name of the definition it denotes, and a "
    "named-schema dictionary with exactly the model's key set. Each valid schema is then hit by "
    "single ill-forming mutations (undefined reference; same full name defined twice, also via "
    "another spelling; name deleted; symbol malformed / non-string / duplicated; enum default "
    "outside symbols; field default of a JSON type no branch can take; decimal precision/scale "
    "negative, non-integer, scale > precision, precision beyond the fixed size) which must raise "
    "SchemaParseException or UnknownType. distinct = hash(schema shape, namespace layout) / "
    "(mutation kind, depth); non-trivial = >=1 named type."
)
ASSUMPTIONS = [
    "JSON type classes for defaults as in A19; mutant defaults are values in no class of any branch",
    "non-integer precision/scale mutants are 2.5, '3', true; negative is -1 (A20)",
    "valid schemas as in A21 (no reference from a namespace to a null-namespace type, definitions before use)",
]
N = {"quick": 120000, "thorough": 2400000}
TIME_LIMIT = {"quick": 40, "thorough": 480}
SHARDS = 16
REACH = {
    "quick": {"parsed_output_reinterpreted": 10000, "valid_accepted": 5000, "names_checked": 20000, "refs_checked": 5000, "mutants_rejected": 10000,
              "ns_attr": 100, "ns_dotted": 100, "ns_inherited": 100,
              "mut_undefined_ref": 300, "mut_duplicate_name": 300, "mut_name_deleted": 300, "mut_bad_symbol": 300,
              "mut_enum_default": 100, "mut_field_default": 300, "mut_decimal": 300, "mut_depth3": 300},
    "thorough": {"valid_accepted": 100000},
}


def undunder(n):
    """The parsed schema without fastavro's private '__...' keys."""
    if isinstance(n, list):
        return [undunder(b) for b in n]
    if isinstance(n, dict):
        return {k: undunder(v) if k in ("type", "items", "values", "fields") else v for k, v in n.items() if not k.startswith("__")}
    return n


def plan(tier, seed):
    n = N[tier]
    return [{"shard": i, "n": n // SHARDS, "seed": seed, "tier": tier, "time_limit": TIME_LIMIT[tier]}
            for i in range(SHARDS)]


# ------------------------------------------------------------- valid side
def compare_names(js, parsed, ns, env, stats, path="$"):
    """Walk raw JSON and parsed output in parallel; return a description of the
    first naming discrepancy or None."""
    if isinstance(js, str):
        if js in PRIMS:
            if parsed != js:
                return "%s: primitive %r parsed as %r" % (path, js, parsed)
            return None
        full = js if "." in js else (ns + "." + js if ns else js)
        stats["refs"] += 1
        if parsed != full:
            return "%s: reference %r (namespace %r) parsed as %r, denotes %r" % (path, js, ns, parsed, full)
        return None
    if isinstance(js, list):
        if not isinstance(parsed, list) or len(parsed) != len(js):
            return "%s: union parsed as %r" % (path, type(parsed).__name__)
        for i, (a, b) in enumerate(zip(js, parsed)):
            r = compare_names(a, b, ns, env, stats, "%s[%d]" % (path, i))
            if r:
                return r
        return None
    if not isinstance(parsed, dict):
        return "%s: dict schema parsed as %r" % (path, parsed)
    t = js["type"]
    if parsed.get("type") != t:
        return "%s: type %r parsed as %r" % (path, t, parsed.get("type"))
    if t in PRIMS:
        return None
    if t == "array":
        return compare_names(js["items"], parsed.get("items"), ns, env, stats, path + ".items")
    if t == "map":
        return compare_names(js["values"], parsed.get("values"), ns, env, stats, path + ".values")
    space, full = split_name(js, ns)
    stats["names"] += 1
    if parsed.get("name") != full:
        return "%s: named type %r (namespace attr %r, enclosing %r) carries name %r, specification gives %r" % (
            path, js.get("name"), js.get("namespace"), ns, parsed.get("name"), full)
    if t == "record":
        pf = parsed.get("fields")
        if not isinstance(pf, list) or len(pf) != len(js.get("fields", [])):
            return "%s: fields differ" % path
        for f, g in zip(js.get("fields", []), pf):
            if g.get("name") != f["name"]:
                return "%s: field %r parsed as %r" % (path, f["name"], g.get("name"))
            r = compare_names(f["type"], g.get("type"), space, env, stats, "%s.%s" % (path, f["name"]))
            if r:
                return r
    return None


# ------------------------------------------------------------ mutant side
def positions(js, ns="", depth=0, path=()):
    """Yield (path, json node, enclosing namespace, depth) for every type position."""
    yield path, js, ns, depth
    if isinstance(js, list):
        for i, b in enumerate(js):
            yield from positions(b, ns, depth + 1, path + (i,))
    elif isinstance(js, dict):
        t = js.get("type")
        if t == "array":
            yield from positions(js["items"], ns, depth + 1, path + ("items",))
        elif t == "map":
            yield from positions(js["values"], ns, depth + 1, path + ("values",))
        elif t == "record":
            space, _ = split_name(js, ns)
            for i, f in enumerate(js.get("fields", [])):
                yield from positions(f["type"], space, depth + 1, path + ("fields", i, "type"))


def get(js, path):
    for p in path:
        js = js[p]
    return js


def put(js, path, value):
    if not path:
        return value
    parent = get(js, path[:-1])
    parent[path[-1]] = value
    return js


def default_classes(t, defined):
    """Set of JSON type classes a default for type t may belong to (A19)."""
    if isinstance(t, list):
        out = set()
        for b in t:
            out |= default_classes(b, defined)
        return out
    if isinstance(t, str) and t not in PRIMS:
        k = defined.get(t)
        if k is None:
            return {"any"}
        t = {"type": k}
    k = t if isinstance(t, str) else t.get("type")
    return {
        "null": {"null"}, "boolean": {"bool"}, "int": {"int"}, "long": {"int"}, "float": {"num", "int", "numstr"},
        "double": {"num", "int", "numstr"}, "string": {"str"}, "bytes": {"str"}, "fixed": {"str"}, "enum": {"str"},
        "array": {"list"}, "map": {"dict"}, "record": {"dict"},
    }.get(k, {"any"})


MUTANT_DEFAULTS = [("list", []), ("dict", {}), ("int", 5), ("str", "s"), ("null", None), ("bool", True), ("num", 1.5)]


def bad_default_for(t, defined, rng):
    classes = default_classes(t, defined)
    if "any" in classes:
        return None
    cands = []
    for cls, v in MUTANT_DEFAULTS:
        if cls in classes:
            continue
        if cls == "int" and ("num" in classes):
            continue
        if cls == "str" and "numstr" in classes:
            continue
        if cls == "bool":
            # true/false is only an unambiguous mutant where neither bool nor... (kept: A19 says int excludes bool)
            pass
        cands.append((cls, copy.deepcopy(v)))
    if not cands:
        return None
    return rng.choice(cands)


def kinds_defined(js):
    """fullname -> kind for every definition (document order, whole schema)."""
    out = {}
    for path, node, ns, depth in positions(js):
        if isinstance(node, dict) and node.get("type") in ("record", "enum", "fixed"):
            try:
                out[split_name(node, ns)[1]] = node["type"]
            except RS.SchemaError:
                pass
    return out


def mutate(js, rng):
    """Returns (mutated schema, kind, depth) or None."""
    js = copy.deepcopy(js)
    pos = list(positions(js))
    defined = kinds_defined(js)
    kind = rng.choice(["undefined_ref", "duplicate_name", "name_deleted", "bad_symbol", "enum_default",
                       "field_default", "field_default", "decimal", "decimal"])
    rng.shuffle(pos)
    if kind == "undefined_ref":
        path, node, ns, depth = pos[0]
        name = rng.choice(["NoSuchType", "a.b.Missing", "x.NoSuch", "Int", "record", "STRING"])
        if (name if "." in name else (ns + "." + name if ns else name)) in defined:
            return None
        if rng.random() < 0.25:
            # the undefined name in the dict spelling {"type": name}
            return put(js, path, {"type": name}), kind, depth
        return put(js, path, name), kind, depth
    if kind == "duplicate_name":
        named = [(p, n, ns, d) for p, n, ns, d in pos if isinstance(n, dict) and n.get("type") in ("record", "enum", "fixed")]
        recs = [(p, n, ns, d) for p, n, ns, d in pos if isinstance(n, dict) and n.get("type") == "record"]
        if not named or not recs:
            return None
        p0, n0, ns0, d0 = named[0]
        full = split_name(n0, ns0)[1]
        space, _, short = full.rpartition(".")
        if n0["type"] == "enum":
            dup = {"type": "enum", "symbols": ["Q"]}
        elif n0["type"] == "fixed":
            dup = {"type": "fixed", "size": 1}
        else:
            dup = {"type": "record", "fields": []}
        how = rng.choice(["dotted", "attr"]) if space else "attr"
        if how == "dotted":
            dup["name"] = full
        else:
            dup["name"] = short
            dup["namespace"] = space
        p1, n1, ns1, d1 = rng.choice(recs)
        # appended as the last field of some record: by then the original is
        # defined unless the original is nested inside a later field of an
        # enclosing record that is not yet complete -> only use if defined first
        n1.setdefault("fields", []).append({"name": "zz_dup", "type": dup})
        return js, kind, d1 + 1
    if kind == "name_deleted":
        named = [(p, n, ns, d) for p, n, ns, d in pos if isinstance(n, dict) and n.get("type") in ("record", "enum", "fixed")]
        if not named:
            return None
        p0, n0, ns0, d0 = named[0]
        full = split_name(n0, ns0)[1]
        # deleting the name of a type that is referenced elsewhere also makes the
        # reference undefined: still ill-formed
        del n0["name"]
        return js, kind, d0
    if kind in ("bad_symbol", "enum_default"):
        enums = [(p, n, ns, d) for p, n, ns, d in pos if isinstance(n, dict) and n.get("type") == "enum"]
        if not enums:
            return None
        p0, n0, ns0, d0 = enums[0]
        if kind == "enum_default":
            n0["default"] = rng.choice(["NOT_THERE", "", n0["symbols"][0].lower() + "_x"])
            if n0["default"] in n0["symbols"]:
                return None
            return js, kind, d0
        how = rng.choice(["malformed", "nonstring", "duplicate"])
        syms = list(n0["symbols"])
        if how == "malformed":
            syms[rng.randrange(len(syms))] = rng.choice(["1abc", "a-b", "", "é", "a b", "a.b", " A", "A ", "CAF\u00c9", "na\u00efve", "A\u0660", "x\u00b2", "A\n", "_\u4e2d", "a\u0301", "B$"])
        elif how == "nonstring":
            syms[rng.randrange(len(syms))] = rng.choice([5, None, True, ["A"], 1.5])
        else:
            syms.append(syms[0])
        n0["symbols"] = syms
        return js, "bad_symbol", d0
    if kind == "field_default":
        recs = [(p, n, ns, d) for p, n, ns, d in pos if isinstance(n, dict) and n.get("type") == "record" and n.get("fields")]
        if not recs:
            return None
        p0, n0, ns0, d0 = recs[0]
        space = split_name(n0, ns0)[0]
        f = rng.choice(n0["fields"])
        t = f["type"]
        qual = {}
        for k, v in defined.items():
            qual[k] = v
        def resolve(tt):
            if isinstance(tt, str) and tt not in PRIMS:
                return tt if "." in tt else (space + "." + tt if space else tt)
            return tt
        tt = [resolve(b) for b in t] if isinstance(t, list) else resolve(t)
        bad = bad_default_for(tt, qual, rng)
        if bad is None:
            return None
        f["default"] = bad[1]
        return js, "field_default", d0 + 1
    if kind == "decimal":
        cands = [(p, n, ns, d) for p, n, ns, d in pos
                 if n == "bytes" or (isinstance(n, dict) and n.get("type") in ("bytes", "fixed"))]
        if not cands:
            return None
        p0, n0, ns0, d0 = cands[0]
        if n0 == "bytes":
            n0 = {"type": "bytes"}
            js = put(js, p0, n0)
        size = n0.get("size")
        how = rng.choice(["neg_precision", "nonint_precision", "neg_scale", "nonint_scale", "scale_gt_precision"] + (["precision_gt_size"] if size is not None else []))
        n0["logicalType"] = "decimal"
        n0["precision"] = 4 if size is None else max(1, min(4, int(0.30103 * (8 * size - 1))))
        n0["scale"] = 1
        if size == 0:
            how = "precision_gt_size"
        if how == "neg_precision":
            n0["precision"] = -1
            n0["scale"] = 0
        elif how == "nonint_precision":
            n0["precision"] = rng.choice([2.5, "3", True])
            n0["scale"] = 0
        elif how == "neg_scale":
            n0["scale"] = -1
        elif how == "nonint_scale":
            n0["scale"] = rng.choice([2.5, "3", True])
            if n0["scale"] is True and n0["precision"] < 1:
                return None
        elif how == "scale_gt_precision":
            n0["scale"] = n0["precision"] + 1
        else:
            import math
            n0["precision"] = int(math.floor(math.log10(2) * (8 * size - 1))) + 1 if size > 0 else 1
            n0["scale"] = 0
        return js, "decimal", d0
    return None


def run_shard(spec):
    import fastavro as fa
    from fastavro.schema import SchemaParseException, UnknownType

    sh = Shard(PID, spec)
    rng = rng_for("C11", spec["seed"], spec["shard"])

    def check_valid(js, feats):
        env = None
        node, env = RS.build(js)
        named = {}
        st, parsed = guard(fa.parse_schema, copy.deepcopy(js), named)
        info = {"schema": js}
        if st == "exc":
            sh.violation("valid-schema-rejected", "parse_schema raised %s" % exc_name(parsed), info)
            return False
        stats = {"names": 0, "refs": 0}
        bad = compare_names(js, parsed, "", env, stats)
        if bad:
            sh.violation("wrong-name", bad, info)
            return False
        if set(named) != set(env.table):
            sh.violation("named-schema-dictionary-differs", "keys %s, model %s" % (sorted(named)[:8], sorted(env.table)[:8]), info)
            return False
        for full, d in named.items():
            if d.get("name") != full:
                sh.violation("named-schema-dictionary-differs", "entry %r holds a schema named %r" % (full, d.get("name")), info)
                return False
        # the returned schema, read as schema JSON by the specification's rules, denotes the same schema
        try:
            back = RP.pcf(undunder(parsed))
        except Exception as e:
            back = "not a schema: %s" % exc_name(e)
        if back != RP.pcf(js):
            sh.violation("parsed-output-denotes-another-schema", "canonical form of the returned schema %s, of the input %s" % (back[:300], RP.pcf(js)[:300]), info)
            return False
        sh.count("parsed_output_reinterpreted")
        sh.count("valid_accepted")
        sh.count("names_checked", stats["names"])
        sh.count("refs_checked", stats["refs"])
        for f in ("ns_attr", "ns_dotted", "ns_inherited", "ref_relative", "ref_qualified", "recursive"):
            if f in feats:
                sh.count(f)
        return True

    def check_mutant(js, kind, depth, orig):
        info = {"schema": js, "mutation": kind}
        st, res = guard(fa.parse_schema, copy.deepcopy(js))
        sh.case(h64("mut", kind, depth, schema_shape(orig)), True)
        if st == "ok":
            sh.violation("ill-formed-schema-accepted", "mutation %s at depth %d was accepted" % (kind, depth), info)
            return False
        if not isinstance(res, (SchemaParseException, UnknownType)):
            sh.violation("ill-formed-schema-wrong-error", "mutation %s raised %s instead of SchemaParseException/UnknownType" % (kind, exc_name(res)), info)
            return False
        # the same verdict through the other entry points of the parser
        from fastavro.schema import expand_schema
        for how, call in (("parse_schema(expand=True)", lambda: fa.parse_schema(copy.deepcopy(js), expand=True)),
                          ("expand_schema", lambda: expand_schema(copy.deepcopy(js))),
                          ("parse_schema(named_schemas={})", lambda: fa.parse_schema(copy.deepcopy(js), {})),
                          ("parse_schema(_write_hint=False)", lambda: fa.parse_schema(copy.deepcopy(js), _write_hint=False))):
            st, res = guard(call)
            if st == "ok":
                sh.violation("ill-formed-schema-accepted", "mutation %s at depth %d was accepted by %s" % (kind, depth, how), dict(info, how=how))
                return False
            if not isinstance(res, (SchemaParseException, UnknownType)):
                sh.violation("ill-formed-schema-wrong-error", "mutation %s through %s raised %s instead of SchemaParseException/UnknownType" % (kind, how, exc_name(res)), dict(info, how=how))
                return False
            sh.count("mutants_rejected_other_entry_points")
        sh.count("mutants_rejected")
        sh.count("mut_" + kind)
        if depth >= 3:
            sh.count("mut_depth3")
        return True

    if "replay" in spec:
        import base64, pickle

        info = pickle.loads(base64.b64decode(spec["replay"]["pickle"]))
        sh.case(None)
        if "mutation" in info:
            check_mutant(info["schema"], info["mutation"], 0, info["schema"])
        else:
            check_valid(info["schema"], set())
        return sh.result()
    i = 0
    while i < spec["n"] and not sh.out_of_time():
        i += 1
        js, feats = gen_schema(rng, bytes_defaults=0.3, logical=rng.random() < 0.3, float_int_defaults=rng.random() < 0.3,
                               union_default_any=rng.random() < 0.3, null_ns_inside=0.03, max_depth=5)
        sh.case(h64(schema_shape(js), tuple(sorted(f for f in feats if f.startswith(("ns_", "ref_"))))), not isinstance(js, str))
        ok = sh.run_case(check_valid, js, feats)
        if i % 120 == 1:
            sh.sample({"valid": js})
        if not ok:
            continue
        for _ in range(3):
            try:
                m = mutate(js, rng)
            except Exception:
                sh.count("mutator_errors")
                m = None
            if m is None:
                continue
            mjs, kind, depth = m
            # the mutant must be ill-formed for the model too (self-check of the mutator)
            if kind in ("undefined_ref", "duplicate_name", "name_deleted"):
                try:
                    RS.build(mjs)
                    sh.count("mutator_produced_valid_schema_skipped")
                    continue
                except (RS.SchemaError, KeyError):
                    pass
            sh.run_case(check_mutant, mjs, kind, depth, js)
            if rng.random() < 0.25 and '"record"' in json.dumps(mjs):
                # the same ill-formed schema with its records declared as the kind "error"
                from ..gen.schema import errorize
                try:
                    ejs = errorize(mjs, rng, 1.0)
                except Exception:
                    ejs = None
                if ejs is not None and ejs != mjs:
                    sh.count("mutants_error_kind")
                    sh.run_case(check_mutant, ejs, kind, depth, js)
            if i % 200 == 1:
                sh.sample({"mutant": kind, "schema": mjs})
    return sh.result()

"""C10 — validate accepts exactly conforming data and agrees with the writers."""
import copy
import io
import random

from ..harness import Shard, rng_for, h64, schema_shape, datum_shape, printable, guard, exc_name
from ..gen.cases import gen_case, float_double_unions
from ..gen.mutate import mutate
from ..ref import schema as RS, binary as RB, conform as RC, container as RK
from .. import known

PID = "C10"
LEVEL = "exploration"
RULE = (
    "cases = generated schemas (half of them with logical types) x (conforming data, with "
    "(name,value)/-type hints at 20% of unions, or the same data after ONE near-miss mutation at "
    "a random position: wrong Python type, out-of-range int, bool for int, wrong fixed size, "
    "unknown symbol, non-string map key, missing required field, wrong hint) x strict x "
    "disable_tuple_notation x raise_errors. Oracle: independent conformance predicate (the "
    "documented Python mapping, B1); validate(raise_errors=False) == conforms; with "
    "raise_errors=True: True or ValidationError exactly in the False cases; validate_many = "
    "conjunction; conforms => schemaless_writer and writer() encode it and it round-trips; "
    "not conforms => Writer(validator=True).write raises and after flush the stream holds "
    "exactly the records accepted before (same for json_writer(validator=True)). "
    "distinct = hash(schema shape, datum classes, mutation kind, flags); non-trivial = any."
)
ASSUMPTIONS = [
    "bytes/bytearray at an array position is an ambiguous 'non-string sequence' (A17): cases where the strict and loose readings differ are skipped, counted",
    "near misses for logical-typed leaves are taken from {dict, list, None, bytes} (A16); unrepresentable decimals belong to C16",
    "float leaves restricted to the float32 range as the statement says",
]
N = {"quick": 64000, "thorough": 1200000}
TIME_LIMIT = {"quick": 40, "thorough": 560}
SHARDS = 16
REACH = {
    "quick": {"validate_compared": 20000, "nonconforming_cases": 3000, "mutations_depth2": 1000,
              "hinted_cases": 200, "strict_cases": 3000, "dtn_cases": 3000, "writer_rejections_checked": 1000,
              "roundtrips_checked": 3000, "omitted_nullable_no_default": 100},
    "thorough": {"validate_compared": 500000},
}


def plan(tier, seed):
    n = N[tier]
    return [{"shard": i, "n": n // SHARDS, "seed": seed, "tier": tier, "time_limit": TIME_LIMIT[tier]}
            for i in range(SHARDS)]


def has_omitted_nullable(node, d, depth=0):
    from collections.abc import Mapping
    node = RS.deref(node)
    if node.kind == "record" and isinstance(d, Mapping):
        for f in node.fields:
            if f.name not in d and not f.has_default:
                return True
    return False


def check_validate(sh, fa, V, case, d, kind, rng):
    js, node = case["schema"], case["node"]
    from fastavro.validation import validate_many

    parsed = None
    results = {}
    for strict in (False, True):
        for dtn in (False, True):
            exp = RC.conforms(node, d, strict=strict, tuples=not dtn)
            exp_loose = RC.conforms(node, d, strict=strict, tuples=not dtn, loose=True)
            info = {"schema": js, "datum": d, "strict": strict, "disable_tuple_notation": dtn, "mutation": kind}
            if exp != exp_loose:
                sh.count("ambiguous_bytes_as_sequence_skipped")
                results[(strict, dtn)] = None
                continue
            results[(strict, dtn)] = exp
            schema_arg = case.setdefault("shared_schema", copy.deepcopy(js))
            if rng.random() < 0.5:
                if parsed is None:
                    st, parsed = guard(fa.parse_schema, copy.deepcopy(js))
                    if st == "exc":
                        sh.violation("parse-rejected-valid-schema", exc_name(parsed), info)
                        return None
                schema_arg = parsed
            st, got = guard(fa.validate, d, schema_arg, raise_errors=False, strict=strict, disable_tuple_notation=dtn)
            if st == "exc":
                sh.violation("validate-raised-with-raise_errors-false", "validate raised %s; conformance predicate says %s" % (exc_name(got), exp), info)
                return None
            if got is not exp:
                sh.violation("validate-disagrees", "validate returned %r, the documented mapping says %r" % (got, exp), info)
                return None
            st, got = guard(fa.validate, d, schema_arg, raise_errors=True, strict=strict, disable_tuple_notation=dtn)
            if exp:
                if st == "exc" or got is not True:
                    sh.violation("validate-raise-mode-disagrees", "conforming datum: raise_errors=True gave %s" % (exc_name(got) if st == "exc" else repr(got)), info)
                    return None
            else:
                if st != "exc" or not isinstance(got, V):
                    sh.violation("validate-raise-mode-disagrees", "non-conforming datum: raise_errors=True gave %s instead of ValidationError" % (exc_name(got) if st == "exc" else repr(got)), info)
                    return None
            sh.count("validate_compared")
            if strict:
                sh.count("strict_cases")
            if dtn:
                sh.count("dtn_cases")
    return results


def check_writers(sh, fa, case, d, conf, dtn, rng):
    js, node = case["schema"], case["node"]
    info = {"schema": js, "datum": d, "disable_tuple_notation": dtn, "conforms": conf}
    if conf:
        out = io.BytesIO()
        st, err = guard(fa.schemaless_writer, out, case.setdefault("shared_schema", copy.deepcopy(js)), d, disable_tuple_notation=dtn)
        if st == "exc":
            sh.violation("validate-accepts-writer-rejects", "schemaless_writer raised %s on a datum validate accepts" % exc_name(err), info)
            return
        data = out.getvalue()
        try:
            tree = RB.decode_all(node, data)
        except RB.DecodeError as e:
            sh.violation("written-bytes-undecodable", str(e), info)
            return
        expected = RC.normalise(node, d, tree, tuples=not dtn)
        st, got = guard(fa.schemaless_reader, io.BytesIO(data), copy.deepcopy(js))
        if st == "exc" or not RC.same(got, expected):
            sh.violation("accepted-datum-does-not-roundtrip", "read back %s, expected %s" % (exc_name(got) if st == "exc" else printable(got, 200), printable(expected, 200)), info)
            return
        if "record_branches_by_reference" in case.get("features", ()):
            # the whole datum comes back only from the branch it shares most fields with: the
            # bytes must select the branch the statement's rule (C09) gives
            from .c09 import canon_decimals
            want = []
            for loose in (False, True):
                try:
                    want.append(canon_decimals(node, RB.strip_spans(RC.from_datum(node, d, not dtn, loose))))
                except Exception:
                    pass
            if want and not any(RC.same(canon_decimals(node, RB.strip_spans(tree)), w) for w in want):
                sh.violation("accepted-datum-does-not-roundtrip", "filed under a branch that drops part of it: read back %s from a datum %s"
                             % (printable(got, 200), printable(d, 200)), info)
                return
            sh.count("by_reference_branch_choice_checked")
        if rng.random() < 0.3:
            fo = io.BytesIO()
            st, err = guard(fa.writer, fo, case.setdefault("shared_schema", copy.deepcopy(js)), [d, d], validator=True, disable_tuple_notation=dtn, codec=rng.choice(["null", "deflate"]))
            if st == "exc":
                sh.violation("validate-accepts-writer-rejects", "writer(validator=True) raised %s" % exc_name(err), info)
                return
            st, got = guard(lambda: list(fa.reader(io.BytesIO(fo.getvalue()))))
            if st == "exc" or len(got) != 2 or not all(RC.same(g, expected) for g in got):
                sh.violation("accepted-datum-does-not-roundtrip", "container: %s" % (exc_name(got) if st == "exc" else printable(got, 200)), info)
                return
        sh.count("roundtrips_checked")
    else:
        from fastavro.write import Writer

        good = case["datum"]
        S = io.BytesIO()
        st, W = guard(Writer, S, case.setdefault("shared_schema", copy.deepcopy(js)), validator=True, options={"disable_tuple_notation": dtn}, sync_interval=rng.choice([1, 10**6]))
        if st == "exc":
            sh.violation("writer-create-failed", exc_name(W), info)
            return
        n_good = 0
        if case.get("good_ok"):
            st, err = guard(W.write, good)
            if st == "ok":
                n_good = 1
        st, err = guard(W.write, d)
        if st == "ok":
            sh.violation("validating-writer-accepts-nonconforming", "Writer(validator=True).write accepted a datum validate rejects", info)
            return
        st, err = guard(W.flush)
        if st == "exc":
            sh.violation("flush-raised-after-rejected-write", exc_name(err), info)
            return
        try:
            cont = RK.parse(S.getvalue())
            trees = RK.records(cont, node)
        except RK.ContainerError as e:
            sh.violation("bytes-of-rejected-record-emitted", "after a rejected write the stream is not a valid file: %s" % e, info)
            return
        if len(trees) != n_good:
            sh.violation("bytes-of-rejected-record-emitted", "stream holds %d records, %d were accepted" % (len(trees), n_good), info)
            return
        sh.count("writer_rejections_checked")
        # the same through the append entry points (an existing file, schema None or repeated)
        if rng.random() < 0.3 and case.get("good_ok"):
            base = io.BytesIO()
            st, err = guard(fa.writer, base, copy.deepcopy(js), [good], sync_marker=b"\x41" * 16)
            if st == "ok":
                size0 = len(base.getvalue())
                sch = rng.choice([None, "same"])
                st, err = guard(fa.writer, base, None if sch is None else copy.deepcopy(js), [d], validator=True, disable_tuple_notation=dtn)
                if st == "ok":
                    sh.violation("validating-writer-accepts-nonconforming", "writer(fo at its end, schema=%s, validator=True) appended a datum validate rejects" % sch, dict(info, append=True))
                    return
                try:
                    n_after = len(RK.records(RK.parse(base.getvalue()), node))
                except RK.ContainerError as e:
                    n_after = -1
                if n_after != 1:
                    sh.violation("bytes-of-rejected-record-emitted", "after a rejected append the file holds %d records (was 1, %d -> %d bytes)" % (n_after, size0, len(base.getvalue())), dict(info, append=True))
                    return
                sh.count("append_rejections_checked")
        if rng.random() < 0.3:
            so = io.StringIO()
            st, err = guard(fa.json_writer, so, case.setdefault("shared_schema", copy.deepcopy(js)), [d], validator=True, disable_tuple_notation=dtn)
            if st == "ok":
                sh.violation("validating-writer-accepts-nonconforming", "json_writer(validator=True) accepted a datum validate rejects", info)
                return
            sh.count("json_writer_rejections_checked")


def one_case(sh, fa, V, rng, case, may_mutate=True):
    js, node = case["schema"], case["node"]
    d = case["datum"]
    kind, depth = "none", 0
    if may_mutate and rng.random() < 0.6:
        m = mutate(node, d, rng)
        if m is not None:
            d, kind, depth = m
    sh.case(h64(schema_shape(js), datum_shape(d), kind), True)
    if "hint_tuple" in case["features"] or "hint_dash_type" in case["features"]:
        sh.count("hinted_cases")
    res = check_validate(sh, fa, V, case, d, kind, rng)
    if res is None:
        return
    base = res[(False, False)]
    if kind != "none":
        sh.count("mutation_" + kind)
        if depth >= 2:
            sh.count("mutations_depth2")
    if base is False:
        sh.count("nonconforming_cases")
    if base is True and "omitted_nullable" in case["features"]:
        sh.count("omitted_nullable_no_default")
    # the unmutated datum conforms: can it be written first?  (for the rejection test)
    case["good_ok"] = RC.conforms(node, case["datum"]) and RC.conforms(node, case["datum"], loose=True)
    for dtn in (False, True):
        conf = res[(False, dtn)]
        if conf is None:
            continue
        if conf and (RC.float_out_of_range(node, d, not dtn)):
            continue
        if conf and RC.raw_under_logical(node, d, not dtn):
            sh.count("raw_value_under_logical_roundtrip_skipped")
            continue
        if conf:
            try:
                RC.from_datum(node, d, not dtn)
            except RecursionError:
                continue
            except Exception:
                pass
        check_writers(sh, fa, case, d, conf, dtn, rng)
    # validate_many = conjunction
    if rng.random() < 0.2 and base is not None and res[(False, False)] is not None:
        from fastavro.validation import validate_many

        batch = [case["datum"], d, case["datum"]]
        strict, dtn = rng.random() < 0.3, rng.random() < 0.4
        kw = {}
        if strict:
            kw["strict"] = True
        if dtn:
            kw["disable_tuple_notation"] = True
            sh.count("validate_many_dtn")
        exp = all(RC.conforms(node, x, strict=strict, tuples=not dtn) for x in batch)
        amb = any(RC.conforms(node, x, strict=strict, tuples=not dtn) != RC.conforms(node, x, strict=strict, tuples=not dtn, loose=True) for x in batch)
        if not amb:
            st, got = guard(validate_many, batch, copy.deepcopy(js), raise_errors=False, **kw)
            if st == "exc" or got is not exp:
                sh.violation("validate_many-disagrees", "validate_many gave %s, conjunction is %s" % (exc_name(got) if st == "exc" else got, exp),
                             {"schema": js, "batch": batch, "options": kw})
                return
            st, got = guard(validate_many, batch, copy.deepcopy(js), raise_errors=True, **kw)
            if (exp and (st == "exc" or got is not True)) or (not exp and not (st == "exc" and isinstance(got, V))):
                sh.violation("validate_many-disagrees", "raise mode gave %s, conjunction is %s" % (exc_name(got) if st == "exc" else got, exp),
                             {"schema": js, "batch": batch})
                return
            sh.count("validate_many_checked")


def ref_records_case(rng):
    """A union of record branches given BY NAME (the records are defined in earlier fields) whose
    field sets are subsets of one another or all optional: a datum meant for a later branch also
    passes validation against an earlier one (extra keys are ignored), so validate accepts it and
    the writers must file it under the branch it shares most fields with and give it back whole."""
    pool = ["x", "y", "z", "w"]
    k = rng.randint(2, 4)
    recs, names = [], []
    for i in range(k):
        nm = "Ref%d" % i
        fs = rng.sample(pool, rng.randint(1, 4))
        optional = rng.random() < 0.4
        recs.append({"type": "record", "name": nm, "fields": [
            {"name": f, "type": ["null", "int"], "default": None} if optional else {"name": f, "type": "int"} for f in fs]})
        names.append((nm, fs, optional))
    order = list(range(k))
    rng.shuffle(order)
    tgt = rng.randrange(k)
    d = {f: rng.randint(-9, 9) for f in names[tgt][1]}
    js = {"type": "record", "name": "Holder", "fields":
          [{"name": "def%d" % i, "type": ["null", r], "default": None} for i, r in enumerate(recs)]
          + [{"name": "u", "type": rng.choice([[], ["null"], ["string"]]) + [names[i][0] for i in order]}]}
    return js, {"u": d}, {"record_branches_by_reference"}


def same_short_name_case(rng):
    """Records that share their short name across namespaces, data hinted ('-type' or tuple) with
    the full name of the one or the other: a hint is compared by full name."""
    fields_a = [{"name": f, "type": "int"} for f in rng.sample(["x", "y"], rng.randint(1, 2))]
    fields_b = fields_a if rng.random() < 0.5 else [{"name": f, "type": "int"} for f in rng.sample(["x", "y", "z"], rng.randint(1, 3))]
    ra = {"type": "record", "name": "Rec", "namespace": "a", "fields": fields_a}
    rb = {"type": "record", "name": "Rec", "namespace": rng.choice(["b", "a.b", "ab"]), "fields": fields_b}
    full_b = rb["namespace"] + ".Rec"
    target = rng.choice(["a.Rec", full_b, "Rec", ".Rec"])
    body = {f["name"]: rng.randint(-5, 5) for f in (fields_a if target == "a.Rec" or rng.random() < 0.5 else fields_b)}
    d = dict(body, **{"-type": target}) if rng.random() < 0.6 else (target, body)
    shape = rng.choice(["alone", "union", "union_rev", "in_map"])
    if shape == "alone":
        # (a tuple at the top of a non-union schema is not a hint: keep the dict spelling there)
        if type(d) is tuple:
            d = dict(body, **{"-type": target})
        return ra, d, {"same_short_name", "hint_dash_type"}
    u = [ra, rb] if shape != "union_rev" else [rb, ra]
    if shape == "in_map":
        return {"type": "map", "values": ["null"] + u}, {"k": d, "n": None}, {"same_short_name", "record_branches_by_reference"}
    return {"type": "record", "name": "Top", "fields": [{"name": "u", "type": u}]}, {"u": d}, {"same_short_name", "record_branches_by_reference"}


def special_sequences_case(rng):
    """Array data handed over in the other non-string sequence types (array.array of several
    item codes, tuple, range), conforming or with one out-of-range / ill-typed item at the
    first, a middle or the last position."""
    import array as _array

    item = rng.choice(["int", "long", "double", "int", "long"])
    n = rng.randint(1, 6)
    lo, hi = {"int": (-(1 << 31), (1 << 31) - 1), "long": (-(1 << 63), (1 << 63) - 1), "double": (-(1 << 40), 1 << 40)}[item]
    vals = [rng.choice([0, 1, -1, lo, hi, rng.randint(max(lo, -10**6), min(hi, 10**6))]) for _ in range(n)]
    bad = rng.random() < 0.5 and item != "double"
    if bad:
        vals[rng.choice([0, n - 1, rng.randrange(n)])] = rng.choice([hi + 1, lo - 1]) if item == "int" else hi + 1
    kind = rng.choice(["array_q", "array_Q", "array_d", "tuple", "list", "range"])
    try:
        if kind == "array_q":
            seq = _array.array("q", vals)
        elif kind == "array_Q":
            seq = _array.array("Q", [abs(v) for v in vals])
        elif kind == "array_d":
            if item != "double":
                return None
            seq = _array.array("d", [float(v) for v in vals])
        elif kind == "tuple":
            seq = tuple(vals) if len(vals) != 2 else tuple(vals + [0])
        elif kind == "range":
            seq = range(vals[0], vals[0] + n) if lo <= vals[0] and vals[0] + n <= hi else range(n)
        else:
            seq = list(vals)
    except (OverflowError, ValueError, TypeError):
        return None
    arr = {"type": "array", "items": item}
    shape = rng.choice(["top", "field", "map", "union"])
    feats = {"special_sequence", "sequence_" + kind}
    if shape == "top":
        return arr, seq, feats
    if shape == "field":
        return {"type": "record", "name": "Holds", "fields": [{"name": "n", "type": "int"}, {"name": "a", "type": arr}]}, {"n": 1, "a": seq}, feats
    if shape == "map":
        return {"type": "map", "values": arr}, {"k": seq, "e": []}, feats
    return {"type": "record", "name": "Holds", "fields": [{"name": "a", "type": ["null", arr, "string"]}]}, {"a": seq}, feats


def run_shard(spec):
    import fastavro as fa
    from fastavro.validation import ValidationError as V

    sh = Shard(PID, spec)
    rng = rng_for("C10", spec["seed"], spec["shard"])
    if "replay" in spec:
        import base64, pickle

        info = pickle.loads(base64.b64decode(spec["replay"]["pickle"]))
        node, env = RS.build(info["schema"])
        d = info["datum"] if "datum" in info else info["batch"][1]
        case = {"schema": info["schema"], "node": node, "datum": d, "features": set()}
        sh.case(None)
        res = check_validate(sh, fa, V, case, d, "replay", rng)
        if res:
            for dtn in (False, True):
                if res[(False, dtn)] is not None:
                    check_writers(sh, fa, case, d, res[(False, dtn)], dtn, rng)
        return sh.result()
    if spec["shard"] == 0:
        # float and double side by side in a union, every spelling of the two primitives
        for js, d, feats in float_double_unions():
            node, env = RS.build(js)
            case = {"schema": js, "node": node, "env": env, "datum": d, "features": set(feats)}
            sh.feat(feats)
            sh.count("float_double_union_cases")
            sh.run_case(one_case, sh, fa, V, random.Random(7), case, False)
            sh.run_case(one_case, sh, fa, V, random.Random(8), case)
    if spec["shard"] == 1:
        # a logical type at the very top (and one level down) with values its conversion refuses
        import datetime as _dt
        import decimal as _dec
        D = _dec.Decimal
        tops = [({"type": "int", "logicalType": "date"}, ["not-a-date", "2024-13-45", 1.5, _dt.date(2024, 2, 29), 19000]),
                ({"type": "bytes", "logicalType": "decimal", "precision": 4, "scale": 2}, [D("1.234"), D("123.45"), D("12.34"), D("NaN"), "12.34"]),
                ({"type": "fixed", "name": "FD", "size": 2, "logicalType": "decimal", "precision": 4, "scale": 0}, [D("99999"), D("0.5"), D("1234"), D("-9999")]),
                ({"type": "long", "logicalType": "timestamp-millis"}, ["yesterday", _dt.datetime(2024, 1, 1, tzinfo=_dt.timezone.utc)]),
                ({"type": "string", "logicalType": "uuid"}, [5, "not-a-uuid"])]
        for js, vals in tops:
            for wrap in (False, True):
                wjs = {"type": "array", "items": js} if wrap else js
                node, env = RS.build(wjs)
                for v in vals:
                    d = [v] if wrap else v
                    case = {"schema": wjs, "node": node, "env": env, "datum": d, "features": {"top_level_logical"}}
                    sh.count("top_level_logical_cases")
                    sh.run_case(one_case, sh, fa, V, random.Random(9), case, False)
    i = 0
    while i < spec["n"] and not sh.out_of_time():
        i += 1
        logical = rng.random() < 0.5
        x = rng.random()
        fam = ref_records_case(rng) if x < 0.06 else same_short_name_case(rng) if x < 0.10 else special_sequences_case(rng) if x < 0.15 else None
        if fam is not None:
            js, d, feats = fam
            node, env = RS.build(js)
            case = {"schema": js, "node": node, "env": env, "datum": d, "features": set(feats)}
            for f in ("record_branches_by_reference", "same_short_name", "special_sequence"):
                if f in feats:
                    sh.count(f)
        else:
            case = gen_case(rng, dict(bytes_defaults=0.15, logical=logical, union_default_any=True), dict(hints=0.2, size_budget=60, big=0.005, omit_nullable=0.15))
        sh.feat(case["features"])
        seed = rng.getrandbits(48)
        applies = RC.has_bytes_default(case["node"])
        neutral = known.neutralise_bytes_defaults(case) if applies else case
        sh.run_case(sh.with_finding, "bytes-default-used-verbatim", applies,
                    lambda s_: one_case(s_, fa, V, random.Random(seed), case),
                    lambda s_: one_case(s_, fa, V, random.Random(seed), neutral))
        if i % 400 == 1:
            sh.sample({"schema": case["schema"], "datum": printable(case["datum"], 200)})
    return sh.result()

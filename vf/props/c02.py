"""C02 — the encoder's bytes are the specification's encoding, byte for
byte, judged by an independent decoder and canonical re-encoder."""
import copy
import io
from collections.abc import Mapping

from ..harness import Shard, rng_for, h64, schema_shape, datum_shape, printable, guard, exc_name
from ..gen.cases import gen_case, boundary_cases, logical_edge_cases
from ..ref import schema as RS, binary as RB, conform as RC
from ..ref.schema import deref
from . import c01
from .. import known

PID = "C02"
LEVEL = "exploration"
RULE = (
    "same workload as C01 (boundary stratum + random schema/datum pairs, raw and "
    "parsed); oracle: the bytes left by schemaless_writer are decoded by the "
    "independent lenient decoder, must be consumed completely, must equal the "
    "normalised datum, must be byte-identical to the canonical re-encoding of the "
    "decoded tree (single positive block + terminator, minimal varints, "
    "little-endian IEEE, UTF-8 byte lengths), and every union branch chosen must be "
    "one the datum conforms to under the independent conformance predicate. "
    "Logical values (dates, times, naive and aware timestamps at the edges of their "
    "domains: before the epoch with a sub-second part, year 1 and 9999) are compared "
    "with the model's encoding of the number the specification assigns to them. "
    "distinct = hash(schema shape, datum value classes, raw/parsed); non-trivial as C01."
)
ASSUMPTIONS = c01.ASSUMPTIONS
N = {"quick": 160000, "thorough": 2400000}
TIME_LIMIT = {"quick": 40, "thorough": 480}
SHARDS = 16
REACH = {
    "quick": {"bytes_compared": 10000, "boundary_cases": 150, "multibyte_strings": 50,
              "beyond_2_56": 20, "union_nodes_checked": 2000, "logical_edge_values": 200},
    "thorough": {"bytes_compared": 100000},
}


def plan(tier, seed):
    n = N[tier]
    return [{"shard": i, "n": n // SHARDS, "seed": seed, "boundary": i == 0, "tier": tier,
             "time_limit": TIME_LIMIT[tier]} for i in range(SHARDS)]


def branch_conformance(sh, node, d, tree, path=(), tuples=True):
    """Every selected branch must be one the datum conforms to.  Returns a
    description of the first offending node or None."""
    node = deref(node)
    k = node.kind
    if k == "union":
        i, child = tree[1]
        inner = d[1] if tuples and type(d) is tuple and len(d) == 2 else d
        sh.count("union_nodes_checked")
        if not RC.conforms(node.branches[i], inner, tuples=tuples, loose=True):
            return "at %r: branch %d (%r) selected for %s which does not conform to it" % (
                path, i, node.branches[i], printable(inner, 120))
        return branch_conformance(sh, node.branches[i], inner, child, path + (i,), tuples)
    if k == "record":
        for f, c in zip(node.fields, tree[1]):
            if isinstance(d, Mapping) and f.name in d:
                v = d[f.name]
            elif f.has_default:
                v = RC.default_datum(f.type, f.default)  # the datum the JSON default denotes
            else:
                v = None
            r = branch_conformance(sh, f.type, v, c, path + (f.name,), tuples)
            if r:
                return r
    elif k == "array":
        for n, (x, c) in enumerate(zip(list(d), tree[1][0])):
            r = branch_conformance(sh, node.items, x, c, path + (n,), tuples)
            if r:
                return r
    elif k == "map":
        for key, c in tree[1][0]:
            if key in d:
                r = branch_conformance(sh, node.values, d[key], c, path + (key,), tuples)
                if r:
                    return r
    return None


def scan_features(sh, tree):
    k, v = tree[0], tree[1]
    if k == "string":
        if len(v) != len(v.encode("utf-8")):
            sh.count("multibyte_strings")
    elif k in ("int", "long"):
        if abs(v) >= 1 << 56:
            sh.count("beyond_2_56")
    elif k in ("float", "double"):
        sh.count("float_nodes")
    elif k == "union":
        scan_features(sh, v[1])
    elif k == "record":
        for c in v:
            scan_features(sh, c)
    elif k == "array":
        for c in v[0]:
            scan_features(sh, c)
    elif k == "map":
        for _key, c in v[0]:
            scan_features(sh, c)


def one_case(sh, fa, case, parsed):
    js, node, datum = case["schema"], case["node"], case["datum"]
    info = {"schema": js, "datum": datum, "parsed": parsed, "dtn": bool(case.get("dtn"))}
    res = c01.check_roundtrip(sh, fa, case, parsed, prop="C02")
    if res is None:
        return
    data, tree, expected, schema_arg = res
    got = RB.to_py(node, tree)
    if not RC.same(got, expected):
        sh.violation("independent-decoder-differs",
                     "independent decoder reads %s from the bytes, datum normalises to %s"
                     % (printable(got, 300), printable(expected, 300)), info)
        return
    canon = RB.encode(node, tree)
    if canon != data:
        n = next((i for i, (a, b) in enumerate(zip(canon, data)) if a != b), min(len(canon), len(data)))
        sh.violation("not-canonical-bytes",
                     "writer bytes differ from the specification encoding at offset %d: wrote %s, spec %s"
                     % (n, data[max(0, n - 4): n + 12].hex(), canon[max(0, n - 4): n + 12].hex()), info)
        return
    bad = branch_conformance(sh, node, datum, tree, (), not case.get("dtn"))
    if bad:
        sh.violation("branch-not-conforming", bad, info)
        return
    scan_features(sh, tree)
    sh.count("bytes_compared")
    sh.count("bytes_total", len(data))


def logical_edges(sh, fa):
    """A logical value is stored as the underlying type's encoding of the
    number (or text) the specification assigns to it: the model computes that
    number from the Python value on its own, so the bytes can be compared
    although the stored value is not the datum itself."""
    for js, d, _feats in logical_edge_cases():
        node, _env = RS.build(js)
        want = RB.encode(node, RC.from_datum(node, d))
        for parsed in (False, True):
            sh.case(h64("logical-edge", schema_shape(js), parsed))
            info = {"schema": js, "datum": d, "parsed": parsed, "dtn": False}
            schema = fa.parse_schema(js) if parsed else js
            out = io.BytesIO()
            st, v = guard(fa.schemaless_writer, out, schema, d)
            if st == "exc":
                sh.violation("writer-raised", "logical edge value: %s" % v, info)
                continue
            sh.count("logical_edge_values", len(d) if isinstance(d, list) else len(d["seen"]))
            if out.getvalue() != want:
                got = out.getvalue()
                n = next((i for i, (a, b) in enumerate(zip(want, got)) if a != b), min(len(want), len(got)))
                sh.violation("logical-value-bytes-differ",
                             "offset %d: wrote %s, the specification's number for the value encodes as %s"
                             % (n, got[max(0, n - 4): n + 12].hex(), want[max(0, n - 4): n + 12].hex()), info)


def run_shard(spec):
    import fastavro as fa

    sh = Shard(PID, spec)
    if "replay" in spec:
        import base64, pickle

        info = pickle.loads(base64.b64decode(spec["replay"]["pickle"]))
        node, env = RS.build(info["schema"])
        case = {"schema": info["schema"], "node": node, "env": env, "datum": info["datum"], "features": set(), "dtn": info.get("dtn", False)}
        sh.case(None)
        one_case(sh, fa, case, info.get("parsed", False))
        return sh.result()
    rng = rng_for("C02", spec["seed"], spec["shard"])
    cases = []
    if spec.get("boundary"):
        for js, d, feats in boundary_cases():
            node, env = RS.build(js)
            cases.append({"schema": js, "node": node, "env": env, "datum": d, "features": set(feats)})
        logical_edges(sh, fa)
    nb = len(cases)
    i = 0
    while i < spec["n"] + nb and not (i >= nb and sh.out_of_time()):
        if i < nb:
            case = cases[i]
        elif rng.random() < 0.15:
            case = gen_case(rng, c01.SOPTS, dict(c01.DOPTS, hints=0.0, no_tuples=True))
            case["dtn"] = True  # tuple notation switched off
            sh.count("tuple_notation_off_cases")
        else:
            case = gen_case(rng, c01.SOPTS, c01.DOPTS)
        i += 1
        feats = case["features"]
        parsed = rng.random() < 0.5
        sh.case(h64(schema_shape(case["schema"]), datum_shape(case["datum"]), parsed),
                c01.nontrivial(case["schema"], feats))
        sh.feat(feats)
        if any(f.startswith(("boundary", "coll_", "union_")) for f in feats):
            sh.count("boundary_cases")
        filled = known.neutralise_bytes_defaults(case) if RC.has_bytes_default(case["node"]) else case
        sh.run_case(sh.with_finding, c01.KNOWN_BYTES_DEFAULT, RC.has_bytes_default(case["node"]),
                    lambda s_: one_case(s_, fa, case, parsed), lambda s_: one_case(s_, fa, filled, parsed))
        if i % 700 == 1:
            sh.sample({"schema": case["schema"], "datum": printable(case["datum"], 300), "parsed": parsed})
    return sh.result()

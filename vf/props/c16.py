"""C16 — logical types use the specification's representation and round-trip
over their whole domain; decimals are never stored as a different number."""
import copy
import datetime as dt
import decimal
import io
import uuid

from ..harness import Shard, rng_for, h64, printable, guard, exc_name
from ..ref import binary as RB, container as RK, logical as RL
from ..ref.schema import Node

PID = "C16"
LEVEL = "exploration"
RULE = (
    "values are pushed through the real writer()/reader() (container files of up to 50k values "
    "of one logical type) and schemaless_writer/reader (decimals), and the stored integers / "
    "bytes are extracted with the independent container parser and varint decoder. Domains: "
    "dates - quick: every month boundary +-1 day of years 1..9999, leap days, epoch+-2, "
    "min/max, random; thorough: ALL 3,652,059 dates. time-millis - quick: every second of the "
    "day with ms in {0,1,999} of a shard-dependent stride + random; thorough: ALL 86,400,000 "
    "values. time-micros - every second with us in {0,1,999,1000,499999,500000,999999} "
    "(quick: strided). timestamps - aware datetimes uniform over years 1..9999 x offsets "
    "-23:59..+23:59 (whole minutes and odd seconds), dense around the epoch and just before "
    "second boundaries; naive datetimes for the local variants and (TZ=UTC) for the plain ones. "
    "UUIDs random + extremes. Decimals - precision 1..40, scale 0..precision, bytes and fixed "
    "sizes 1..17: random coefficients, +-(10^p-1), neighbours of +-2^(8n-1), negative zero, "
    "positive exponents, surplus fractional digits, surplus digits, NaN/Infinity, three-valued "
    "oracle (must raise / must succeed / either; on success exact two's complement and numerically "
    "equal read-back). distinct = (logical type, value); boundary values counted separately."
)
ASSUMPTIONS = [
    "process time zone is UTC (TZ=UTC exported by the harness) for naive datetimes under timestamp-*",
    "only instants whose UTC value lies in datetime.min..datetime.max (A27)",
    "decimal oracle is three-valued (A26/B6): representable-but-surplus-digit literals may be accepted or rejected",
]
SHARDS = 16
TIME_LIMIT = {"quick": 45, "thorough": 840}
REACH = {
    "quick": {"date_values": 30000, "time_millis_values": 50000, "time_micros_values": 20000,
              "timestamp_values": 40000, "local_timestamp_values": 10000, "uuid_values": 2000,
              "decimal_cases": 20000, "decimal_must_raise": 2000, "decimal_must_succeed": 8000,
              "decimal_neg_zero": 50, "decimal_fixed_boundary": 200, "decimal_by_reference": 500, "decimal_piecewise_files": 500, "subsecond_offsets": 500, "decimal_in_float_unions": 500, "decimal_rejection_recovery": 200, "decimal_goes_to_later_branch": 300, "phases_under_another_time_zone": 6},
    "thorough": {"date_values": 3652059, "time_millis_values": 86400000},
}
EPOCH_ORD = dt.date(1970, 1, 1).toordinal()
MAXORD = dt.date.max.toordinal()


def plan(tier, seed):
    return [{"shard": i, "seed": seed, "tier": tier, "time_limit": TIME_LIMIT[tier]} for i in range(SHARDS)]


def coverage_extra(tier, counters):
    return {"exhaustive_dates": tier == "thorough" and counters.get("date_values", 0) >= 3652059,
            "exhaustive_time_millis": tier == "thorough" and counters.get("time_millis_values", 0) >= 86400000}


def node_for(js):
    return Node(js["type"], logical=js.get("logicalType"), attrs={k: js[k] for k in ("precision", "scale") if k in js})


def stored_ints(data):
    cont = RK.parse(data)
    out = []
    for b in cont.blocks:
        pos = 0
        for _ in range(b.count):
            v, pos = RB.dec_long(b.data, pos)
            out.append(v)
        if pos != len(b.data):
            raise RK.ContainerError("residue")
    return out


def batch(sh, fa, js, values, expected_raw, expected_back, counter, label):
    """Write all values into one container, check stored ints and read-back."""
    if not values:
        return True
    fo = io.BytesIO()
    st, err = guard(fa.writer, fo, js, values, sync_interval=1 << 20)
    info = {"schema": js, "n": len(values), "first": values[0], "last": values[-1], "label": label}
    if st == "exc":
        # find the offending value
        for v in values:
            s2, e2 = guard(fa.schemaless_writer, io.BytesIO(), js, v)
            if s2 == "exc":
                sh.violation("logical-write-raised", "%s: writing %r raised %s" % (js["logicalType"], v, exc_name(e2)), {"schema": js, "value": v})
                return False
        sh.violation("logical-write-raised", exc_name(err), info)
        return False
    data = fo.getvalue()
    try:
        raws = stored_ints(data)
    except Exception as e:
        sh.violation("stored-form-unparseable", exc_name(e), info)
        return False
    if len(raws) != len(values):
        sh.violation("stored-count-differs", "%d stored, %d written" % (len(raws), len(values)), info)
        return False
    for v, r in zip(values, raws):
        if r != expected_raw(v):
            sh.violation("stored-value-wrong", "%s: %r stored as %d, specification says %d" % (js["logicalType"], v, r, expected_raw(v)), {"schema": js, "value": v})
            return False
    st, got = guard(lambda: list(fa.reader(io.BytesIO(data))))
    if st == "exc" or len(got) != len(values):
        sh.violation("logical-read-raised", exc_name(got) if st == "exc" else "count", info)
        return False
    for v, g in zip(values, got):
        e = expected_back(v)
        if g != e or type(g) is not type(e) or (isinstance(g, dt.datetime) and (g.tzinfo is None) != (e.tzinfo is None)):
            sh.violation("roundtrip-differs", "%s: %r came back as %r, expected %r" % (js["logicalType"], v, g, e), {"schema": js, "value": v})
            return False
        if isinstance(g, dt.datetime) and g.tzinfo is not None and g.utcoffset() != dt.timedelta(0):
            sh.violation("not-utc", "%r returned with offset %r" % (g, g.utcoffset()), {"schema": js, "value": v})
            return False
    sh.count(counter, len(values))
    sh.evals += len(values)
    return True


# ------------------------------------------------------------------ dates
def dates(sh, fa, rng, spec):
    js = {"type": "int", "logicalType": "date"}
    raw = lambda d: RL.days_from_civil(d.year, d.month, d.day)
    back = lambda d: d
    shard, tier = spec["shard"], spec["tier"]
    if tier == "thorough":
        lo = 1 + (MAXORD * shard) // SHARDS
        hi = 1 + (MAXORD * (shard + 1)) // SHARDS
        o = lo
        while o < hi and not sh.out_of_time():
            n = min(50000, hi - o)
            vals = [dt.date.fromordinal(x) for x in range(o, o + n)]
            if not batch(sh, fa, js, vals, raw, back, "date_values", "all dates"):
                return
            o += n
        sh.hashes.add(h64("dates", lo, hi))
        return
    vals = []
    for y in range(1 + shard, 10000, SHARDS):
        for m in range(1, 13):
            first = dt.date(y, m, 1)
            vals.append(first)
            if first.toordinal() > 1:
                vals.append(first - dt.timedelta(days=1))
            if first.toordinal() < MAXORD:
                vals.append(first + dt.timedelta(days=1))
        if y % 4 == 0 and (y % 100 != 0 or y % 400 == 0):
            vals.append(dt.date(y, 2, 29))
    vals += [dt.date.min, dt.date.max, dt.date(1970, 1, 1), dt.date(1969, 12, 31), dt.date(1969, 12, 30),
             dt.date(1970, 1, 2), dt.date(1970, 1, 3), dt.date(1900, 2, 28), dt.date(1900, 3, 1), dt.date(2000, 2, 29)]
    vals += [dt.date.fromordinal(rng.randint(1, MAXORD)) for _ in range(4000)]
    for v in vals[:2000]:
        sh.hashes.add(h64("date", v.toordinal()))
    batch(sh, fa, js, vals, raw, back, "date_values", "date boundaries")
    sh.count("date_boundary_values", len(vals) - 4000)


# ------------------------------------------------------------------ times
def times(sh, fa, rng, spec):
    shard, tier = spec["shard"], spec["tier"]
    jm = {"type": "int", "logicalType": "time-millis"}
    ju = {"type": "long", "logicalType": "time-micros"}
    rawm = lambda t: (t.hour * 3600 + t.minute * 60 + t.second) * 1000 + t.microsecond // 1000
    backm = lambda t: t.replace(microsecond=t.microsecond // 1000 * 1000)
    rawu = lambda t: (t.hour * 3600 + t.minute * 60 + t.second) * 1000000 + t.microsecond
    backu = lambda t: t
    if tier == "thorough":
        # every millisecond of the day: shard s takes seconds s, s+16, ...
        for sec0 in range(shard, 86400, SHARDS * 50):
            if sh.out_of_time():
                break
            vals = []
            for sec in range(sec0, min(sec0 + SHARDS * 50, 86400), SHARDS):
                h, m, s = sec // 3600, sec // 60 % 60, sec % 60
                vals.extend(dt.time(h, m, s, ms * 1000 + (ms * 7) % 1000) for ms in range(1000))
            if not batch(sh, fa, jm, vals, rawm, backm, "time_millis_values", "all millis"):
                return
        sh.hashes.add(h64("time-millis", shard))
        secs = range(shard, 86400, SHARDS)
    else:
        secs = range(shard, 86400, SHARDS)
        vals = []
        for sec in secs:
            h, m, s = sec // 3600, sec // 60 % 60, sec % 60
            for us in (0, 1000, 999000, 999999, 1999, 500):
                vals.append(dt.time(h, m, s, us))
        vals += [dt.time(rng.randint(0, 23), rng.randint(0, 59), rng.randint(0, 59), rng.randint(0, 999999)) for _ in range(2000)]
        vals += [dt.time.min, dt.time.max, dt.time(23, 59, 59, 999000), dt.time(0, 0, 0, 999), dt.time(12, 0, 0, 0)]
        for v in vals[:3000]:
            sh.hashes.add(h64("tm", v))
        if not batch(sh, fa, jm, vals, rawm, backm, "time_millis_values", "time-millis"):
            return
    vals = []
    for sec in secs:
        if tier == "quick" and sec % 4:
            continue
        h, m, s = sec // 3600, sec // 60 % 60, sec % 60
        for us in (0, 1, 999, 1000, 499999, 500000, 999999):
            vals.append(dt.time(h, m, s, us))
    vals += [dt.time(rng.randint(0, 23), rng.randint(0, 59), rng.randint(0, 59), rng.randint(0, 999999)) for _ in range(2000)]
    vals += [dt.time.min, dt.time.max]
    for v in vals[:3000]:
        sh.hashes.add(h64("tu", v))
    for i in range(0, len(vals), 50000):
        if not batch(sh, fa, ju, vals[i:i + 50000], rawu, backu, "time_micros_values", "time-micros"):
            return


# ------------------------------------------------------------- timestamps
UTC = dt.timezone.utc
MIN_US = RL.micros_of_naive(dt.datetime.min)
MAX_US = RL.micros_of_naive(dt.datetime.max)


def rand_instants(rng, n):
    """Naive UTC datetimes: uniform over the range, dense near the epoch and
    just before/after second boundaries on both sides of the epoch."""
    out = []
    day = 86400 * 10**6
    for _ in range(n):
        x = rng.random()
        if x < 0.5:
            us = rng.randint(MIN_US + 2 * day, MAX_US - 2 * day)
        elif x < 0.7:
            us = rng.randint(-3 * day, 3 * day)
        elif x < 0.85:
            us = rng.randint(-10**7, 10**7) * 10**6 + rng.choice([-1, 0, 1, 999, 1000, -999, -1000, 999999, -999999, 500, -500, 1500, -1500])
        else:
            us = rng.choice([-1, 0, 1, -999, -1000, -1001, 999, 1000, 1001, -999999, -1000000, -1000001])
        out.append(RL.naive_from_micros(us))
    return out


def timestamps(sh, fa, rng, spec):
    n = 3000 if spec["tier"] == "quick" else 60000
    for lt, div in (("timestamp-millis", 1000), ("timestamp-micros", 1)):
        js = {"type": "long", "logicalType": lt}
        vals = []
        for u in rand_instants(rng, n):
            x = rng.random()
            if x < 0.25:
                off = dt.timedelta(0)
            elif x < 0.75:
                off = dt.timedelta(minutes=rng.randint(-1439, 1439))
            elif x < 0.88:
                off = dt.timedelta(seconds=rng.randint(-86399, 86399))
            else:
                # offsets need not be whole seconds
                off = dt.timedelta(seconds=rng.randint(-86398, 86398), microseconds=rng.choice([1, 250000, 500000, 999999, rng.randint(1, 999999)]))
                sh.count("subsecond_offsets")
            local = u + off
            vals.append(local.replace(tzinfo=dt.timezone(off)))
        vals += [dt.datetime(1970, 1, 1, tzinfo=UTC), dt.datetime(1969, 12, 31, 23, 59, 59, 999999, tzinfo=UTC),
                 dt.datetime(1, 1, 2, tzinfo=UTC), dt.datetime(9999, 12, 30, 23, 59, 59, 999999, tzinfo=UTC),
                 dt.datetime(1970, 1, 1, 1, 0, tzinfo=dt.timezone(dt.timedelta(hours=1)))]
        raw = lambda v, div=div: RL.micros_of_aware(v) // div
        back = lambda v, div=div: RL.naive_from_micros(RL.micros_of_aware(v) // div * div).replace(tzinfo=UTC)
        for v in vals[:1500]:
            sh.hashes.add(h64(lt, v))
        for i in range(0, len(vals), 20000):
            if not batch(sh, fa, js, vals[i:i + 20000], raw, back, "timestamp_values", lt):
                return
        sh.count("timestamp_pre_epoch", sum(1 for v in vals if RL.micros_of_aware(v) < 0))
        if spec.get("other_tz"):
            continue  # what follows is the one part that is meant to depend on the process time zone
        # naive datetimes under the plain timestamp types (TZ=UTC)
        nv = rand_instants(rng, n // 3)
        # the first and the last day of the datetime range included (TZ=UTC)
        nv += [dt.datetime(1, 1, 1), dt.datetime(1, 1, 1, 0, 0, 0, 1), dt.datetime(1, 1, 1, 23, 59, 59, 999999), dt.datetime(1, 1, 2),
               dt.datetime(9999, 12, 31), dt.datetime(9999, 12, 31, 23, 59, 59, 999999), dt.datetime(9999, 12, 30, 12), dt.datetime(1970, 1, 1)]
        raw_n = lambda v, div=div: RL.micros_of_naive(v) // div
        back_n = lambda v, div=div: RL.naive_from_micros(RL.micros_of_naive(v) // div * div).replace(tzinfo=UTC)
        if not batch(sh, fa, js, nv, raw_n, back_n, "timestamp_naive_values", lt + " naive"):
            return
    for lt, div in (("local-timestamp-millis", 1000), ("local-timestamp-micros", 1)):
        js = {"type": "long", "logicalType": lt}
        vals = rand_instants(rng, n // 2) + [dt.datetime.min, dt.datetime.max, dt.datetime(1970, 1, 1), dt.datetime(1969, 12, 31, 23, 59, 59, 999999)]
        raw = lambda v, div=div: RL.micros_of_naive(v) // div
        back = lambda v, div=div: RL.naive_from_micros(RL.micros_of_naive(v) // div * div)
        for v in vals[:1000]:
            sh.hashes.add(h64(lt, v))
        if not batch(sh, fa, js, vals, raw, back, "local_timestamp_values", lt):
            return


# ------------------------------------------------------------------ uuids
def uuids(sh, fa, rng, spec):
    js = {"type": "string", "logicalType": "uuid"}
    vals = [uuid.UUID(int=rng.getrandbits(128)) for _ in range(300 if spec["tier"] == "quick" else 20000)]
    vals += [uuid.UUID(int=0), uuid.UUID(int=(1 << 128) - 1), uuid.UUID("12345678-1234-5678-1234-567812345678")]
    fo = io.BytesIO()
    st, err = guard(fa.writer, fo, js, vals)
    if st == "exc":
        sh.violation("logical-write-raised", exc_name(err), {"schema": js})
        return
    cont = RK.parse(fo.getvalue())
    pos = 0
    data = b"".join(b.data for b in cont.blocks)
    for v in vals:
        n, pos = RB.dec_long(data, pos)
        s = data[pos:pos + n].decode()
        pos += n
        if s != str(v):
            sh.violation("stored-value-wrong", "uuid %r stored as %r" % (v, s), {"schema": js, "value": v})
            return
    got = list(fa.reader(io.BytesIO(fo.getvalue())))
    if got != vals or any(type(g) is not uuid.UUID for g in got):
        sh.violation("roundtrip-differs", "uuid", {"schema": js})
        return
    for v in vals[:300]:
        sh.hashes.add(h64("uuid", v))
    sh.count("uuid_values", len(vals))
    sh.evals += len(vals)


# --------------------------------------------------------------- decimals
def decimal_values(rng, p, s, size):
    """Candidate decimals for precision p, scale s (size None => bytes)."""
    D = decimal.Decimal
    out = []
    nd = rng.randint(1, p)
    coeff = rng.randint(0, 10**nd - 1)
    out.append(("random", D((rng.choice([0, 1]), tuple(int(c) for c in str(coeff)), -s))))
    out.append(("max", D((0, (9,) * p, -s))))
    out.append(("min", D((1, (9,) * p, -s))))
    out.append(("neg_zero", D((1, (0,), -s))))
    out.append(("neg_zero", D("-0")))
    out.append(("zero", D(0)))
    if size is not None:
        for n in (size, max(1, size - 1)):
            edge = 1 << (8 * n - 1)
            for u in (edge - 1, edge, edge + 1, -edge, -edge - 1, -edge + 1):
                out.append(("fixed_boundary", D(u).scaleb(-s)))
    else:
        for n in (1, 2, 3, 8):
            edge = 1 << (8 * n - 1)
            for u in (edge - 1, edge, -edge, -edge - 1):
                out.append(("bytes_boundary", D(u).scaleb(-s)))
    # positive exponents
    e = rng.randint(1, 3)
    out.append(("pos_exp", D((0, (rng.randint(1, 9),), e))))
    out.append(("pos_exp", D((1, (1, 2), e))))
    # surplus fractional digits / surplus digits
    out.append(("surplus_fraction", D((0, (1, 5, 0), -(s + 1)))))
    out.append(("surplus_fraction", D((1, (7,), -(s + 2)))))
    out.append(("surplus_digits", D((0, (1,) * (p + 1), -s))))
    out.append(("surplus_digits", D((1, (1,) + (0,) * p, -s))))
    out.append(("nonfinite", D("NaN")))
    out.append(("nonfinite", D("Infinity")))
    out.append(("nonfinite", D("-Infinity")))
    out.append(("nonfinite", D("sNaN")))
    return out


def classify(d, p, s, size):
    """'raise', 'ok' or 'either' plus the exact unscaled integer when defined."""
    sign, digits, exp = d.as_tuple()
    if not isinstance(exp, int):
        return "raise", None
    if -exp > s or len(digits) > p:
        return "raise", None
    n = 0
    for dig in digits:
        n = n * 10 + dig
    u = n * 10 ** (exp + s)
    if sign:
        u = -u
    if size is not None and not -(1 << (8 * size - 1)) <= u < (1 << (8 * size - 1)):
        return "raise", None
    if len(digits) + max(exp + s, 0) <= p:
        return "ok", u
    return "either", u


def decimals(sh, fa, rng, spec):
    import math

    n = 450 if spec["tier"] == "quick" else 12000
    for _ in range(n):
        if sh.out_of_time():
            return
        fixed = rng.random() < 0.5
        if fixed:
            size = rng.randint(1, 17)
            maxp = int(math.floor(math.log10(2) * (8 * size - 1)))
            if maxp < 1:
                continue
            p = rng.randint(1, min(maxp, 40))
            s = rng.randint(0, p) if rng.random() < 0.85 else 0
            js = {"type": "fixed", "name": "Dec", "size": size, "logicalType": "decimal", "precision": p, "scale": s}
            if s == 0 and rng.random() < 0.5:
                del js["scale"]  # an omitted scale is zero
                sh.count("decimal_scale_omitted")
        else:
            size = None
            p = rng.randint(1, 40)
            s = rng.randint(0, p) if rng.random() < 0.85 else 0
            js = {"type": "bytes", "logicalType": "decimal", "precision": p, "scale": s}
            if s == 0 and rng.random() < 0.5:
                del js["scale"]
                sh.count("decimal_scale_omitted")
        st, parsed = guard(fa.parse_schema, js)
        if st == "exc":
            sh.violation("parse-rejected-valid-schema", exc_name(parsed), {"schema": js})
            return
        for label, d in decimal_values(rng, p, s, size):
            verdict, u = classify(d, p, s, size)
            info = {"schema": js, "value": d, "class": label, "oracle": verdict}
            sh.case(h64("dec", fixed, p, s, size, label, str(d)) if rng.random() < 0.2 else None, True)
            sh.count("decimal_cases")
            sh.count("decimal_" + label)
            out = io.BytesIO()
            st, err = guard(fa.schemaless_writer, out, parsed, d)
            if verdict == "raise":
                sh.count("decimal_must_raise")
                if st == "ok":
                    sh.violation("unrepresentable-decimal-stored", "%r (precision %d, scale %d, size %s) was written as %s instead of raising"
                                 % (d, p, s, size, out.getvalue().hex()), info)
                    return
                if d.is_finite() and (label in ("pos_exp", "fixed_boundary", "surplus_digits") or rng.random() < 0.3):
                    # next to a decimal branch that can hold it, the value goes there
                    for big in ({"type": "fixed", "name": "Big", "size": 20, "logicalType": "decimal", "precision": 40, "scale": s},
                                {"type": "bytes", "logicalType": "decimal", "precision": 40, "scale": s}):
                        if classify(d, 40, s, big.get("size"))[0] != "ok":
                            continue
                        direct = io.BytesIO()
                        fa.schemaless_writer(direct, copy.deepcopy(big), d)
                        for uj, idx in (([js, big], 1), (["null", js, big], 2), ({"type": "map", "values": [js, big]}, 1)):
                            o2 = io.BytesIO()
                            st2, err2 = guard(fa.schemaless_writer, o2, copy.deepcopy(uj), {"k": d} if isinstance(uj, dict) else d)
                            want = (b"\x02\x02k" if isinstance(uj, dict) else b"") + bytes([idx * 2]) + direct.getvalue() + (b"\x00" if isinstance(uj, dict) else b"")
                            if st2 == "exc" or o2.getvalue() != want:
                                sh.violation("representable-decimal-rejected" if st2 == "exc" else "decimal-stored-as-different-number",
                                             "%r does not fit the first decimal branch of %s but fits a later one: %s"
                                             % (d, printable(uj, 160), exc_name(err2) if st2 == "exc" else o2.getvalue().hex()), dict(info, schema=uj))
                                return
                            st3, ok3 = guard(fa.validate, {"k": d} if isinstance(uj, dict) else d, copy.deepcopy(uj), raise_errors=False)
                            if st3 == "exc" or ok3 is not True:
                                sh.violation("representable-decimal-rejected", "validate: %r under %s gives %s" % (d, printable(uj, 160), exc_name(ok3) if st3 == "exc" else ok3), dict(info, schema=uj))
                                return
                        sh.count("decimal_goes_to_later_branch")
                if rng.random() < 0.25:
                    # next to a floating-point branch the value must not slip in there instead ...
                    for uj in ([js, "double"], ["float", js], ["null", "double", js]):
                        st, err = guard(fa.schemaless_writer, io.BytesIO(), copy.deepcopy(uj), d)
                        if st == "ok":
                            sh.violation("unrepresentable-decimal-stored", "%r under the union %s was written (as a floating-point number) instead of raising" % (d, printable(uj, 120)), dict(info, schema=uj))
                            return
                    # ... and a Writer that rejected it goes on writing correct records
                    from fastavro.write import Writer
                    wrap = {"type": "record", "name": "Row", "fields": [{"name": "id", "type": "long"}, {"name": "note", "type": "string"}, {"name": "amount", "type": copy.deepcopy(js)}]}
                    okd = decimal.Decimal(0).scaleb(-s) if s else decimal.Decimal(0)
                    fo = io.BytesIO()
                    w = Writer(fo, wrap, sync_interval=10**6)
                    w.write({"id": 1, "note": "first", "amount": okd})
                    st, err = guard(w.write, {"id": 2, "note": "x" * 50, "amount": d})
                    w.write({"id": 3, "note": "t", "amount": okd})
                    w.flush()
                    st2, got = guard(lambda: list(fa.reader(io.BytesIO(fo.getvalue()))))
                    if st == "ok" or st2 == "exc" or [r["id"] for r in got] != [1, 3] or any(r["amount"] != okd for r in got):
                        sh.violation("decimal-roundtrip-differs", "a Writer that was handed the unrepresentable %r between two good records: rejected=%s, file reads %s"
                                     % (d, st == "exc", exc_name(got) if st2 == "exc" else printable(got, 160)), dict(info, schema=wrap))
                        return
                    sh.count("decimal_rejection_recovery")
                continue
            if st == "exc":
                if verdict == "ok":
                    sh.violation("representable-decimal-rejected", "%r (precision %d, scale %d, size %s) raised %s" % (d, p, s, size, exc_name(err)), info)
                    return
                sh.count("decimal_either_rejected")
                continue
            if verdict == "ok" and rng.random() < 0.15:
                # in a union with floating-point branches a Decimal still goes to the decimal branch
                for uj, idx in (([js, "double"], 0), (["double", js], 1), (["null", "float", js], 2)):
                    o2 = io.BytesIO()
                    st2, err2 = guard(fa.schemaless_writer, o2, copy.deepcopy(uj), d)
                    if st2 == "exc" or o2.getvalue()[:1] != bytes([idx * 2]) or o2.getvalue()[1:] != out.getvalue():
                        sh.violation("decimal-stored-as-different-number", "%r under the union %s: %s (the decimal branch is %d and stores %s)"
                                     % (d, printable(uj, 120), exc_name(err2) if st2 == "exc" else o2.getvalue().hex(), idx, out.getvalue().hex()), dict(info, schema=uj))
                        return
                sh.count("decimal_in_float_unions")
            if verdict == "ok":
                sh.count("decimal_must_succeed")
            else:
                sh.count("decimal_either_accepted")
            data = out.getvalue()
            if fixed:
                raw = data
                if len(raw) != size:
                    sh.violation("fixed-decimal-wrong-length", "%d bytes stored for size %d" % (len(raw), size), info)
                    return
            else:
                ln, pos = RB.dec_long(data, 0)
                raw = data[pos:]
                if ln != len(raw) or ln < 1:
                    sh.violation("bytes-decimal-bad-length", data.hex(), info)
                    return
            if int.from_bytes(raw, "big", signed=True) != u:
                sh.violation("decimal-stored-as-different-number", "%r stored as %s = %d, unscaled value is %d" % (d, raw.hex(), int.from_bytes(raw, "big", signed=True), u), info)
                return
            st, got = guard(fa.schemaless_reader, io.BytesIO(data), parsed)
            if st == "exc" or not isinstance(got, decimal.Decimal) or got != d:
                sh.violation("decimal-roundtrip-differs", "%r came back as %s" % (d, exc_name(got) if st == "exc" else repr(got)), info)
                return
            if fixed and verdict == "ok" and rng.random() < 0.35:
                # the same logical type reached through by-name references (second field, array
                # items, union branch): stored and returned exactly as at its definition
                wrap = {"type": "record", "name": "Holder", "fields": [
                    {"name": "a", "type": dict(js)}, {"name": "b", "type": "Dec"},
                    {"name": "c", "type": {"type": "array", "items": "Dec"}}, {"name": "u", "type": ["null", "Dec"]},
                    {"name": "m", "type": {"type": "map", "values": "Dec"}}]}
                rec = {"a": d, "b": d, "c": [d], "u": d, "m": {"k": d}}
                want = raw + raw + b"\x02" + raw + b"\x00" + b"\x02" + raw + b"\x02\x02k" + raw + b"\x00"
                form = wrap if rng.random() < 0.5 else fa.parse_schema(copy.deepcopy(wrap))
                out2 = io.BytesIO()
                st, err = guard(fa.schemaless_writer, out2, form, rec)
                if st == "exc" or out2.getvalue() != want:
                    sh.violation("decimal-stored-as-different-number", "through by-name references: %s, expected %s"
                                 % (exc_name(err) if st == "exc" else out2.getvalue().hex(), want.hex()), dict(info, schema=wrap, value=rec))
                    return
                st, got = guard(fa.schemaless_reader, io.BytesIO(want), form)
                if st == "exc" or got != rec or not all(isinstance(x, decimal.Decimal) for x in (got["a"], got["b"], got["c"][0], got["u"], got["m"]["k"])):
                    sh.violation("decimal-roundtrip-differs", "through by-name references: %s" % (exc_name(got) if st == "exc" else repr(got)), dict(info, schema=wrap, value=rec))
                    return
                sh.count("decimal_by_reference")
                # the type parsed on its own first (shared named_schemas) and used by name only: a container
                # file written from that schema carries the full annotation in its header
                def piecewise_file():
                    named = {}
                    fa.parse_schema(copy.deepcopy(js), named)
                    pw = fa.parse_schema({"type": "record", "name": "Holder2", "fields": [
                        {"name": "a", "type": "Dec"}, {"name": "c", "type": {"type": "array", "items": "Dec"}}, {"name": "u", "type": ["null", "Dec"]}]}, named)
                    fo = io.BytesIO()
                    fa.writer(fo, pw, [{"a": d, "c": [d, d], "u": d}], codec=rng.choice(["null", "deflate"]))
                    return list(fa.reader(io.BytesIO(fo.getvalue())))
                st, got = guard(piecewise_file)
                if st == "exc" or got != [{"a": d, "c": [d, d], "u": d}]:
                    sh.violation("decimal-roundtrip-differs", "container file written from a schema that only refers to the separately parsed decimal type: %s"
                                 % (exc_name(got) if st == "exc" else repr(got)), dict(info, value=d))
                    return
                sh.count("decimal_piecewise_files")


def run_shard(spec):
    import fastavro as fa

    sh = Shard(PID, spec)
    rng = rng_for("C16", spec["seed"], spec["shard"])
    if "replay" in spec:
        import base64, pickle

        info = pickle.loads(base64.b64decode(spec["replay"]["pickle"]))
        js, v = info["schema"], info.get("value")
        sh.case(None)
        if js.get("logicalType") == "decimal":
            p, s = js["precision"], js.get("scale", 0)
            size = js.get("size")
            verdict, u = classify(v, p, s, size)
            out = io.BytesIO()
            st, err = guard(fa.schemaless_writer, out, js, v)
            if verdict == "raise" and st == "ok":
                sh.violation("unrepresentable-decimal-stored", "replayed", info)
            elif verdict == "ok" and st == "exc":
                sh.violation("representable-decimal-rejected", "replayed", info)
            elif st == "ok":
                raw = out.getvalue() if size else out.getvalue()[RB.dec_long(out.getvalue(), 0)[1]:]
                got = fa.schemaless_reader(io.BytesIO(out.getvalue()), js)
                if int.from_bytes(raw, "big", signed=True) != u or got != v:
                    sh.violation("decimal-stored-as-different-number", "replayed", info)
        else:
            node = node_for(js)
            batch(sh, fa, js, [v], lambda x: RL.prepare(node, x), lambda x: RL.read_back(node, RL.prepare(node, x)), "replayed", "replay")
        return sh.result()
    for fn in (dates, times, timestamps, uuids, decimals):
        sh.run_case(fn, sh, fa, rng, spec)
    if spec["shard"] % 4 in (1, 2) and not sh.violations:
        # nothing but the naive datetimes under timestamp-* depends on the process time zone: dates,
        # times of day, aware and local timestamps once more east / west of UTC (POSIX notation,
        # no zone database needed)
        import os, time
        old_tz = os.environ.get("TZ")
        os.environ["TZ"] = "IST-5:30" if spec["shard"] % 4 == 1 else "XST+9:30"
        time.tzset()
        try:
            for fn in (dates, times, timestamps):
                sh.run_case(fn, sh, fa, rng, dict(spec, other_tz=True))
            sh.count("phases_under_another_time_zone", 3)
        finally:
            if old_tz is None:
                os.environ.pop("TZ", None)
            else:
                os.environ["TZ"] = old_tz
            time.tzset()
    sh.sample({"date": "0001-01-01..9999-12-31", "aware": str(dt.datetime(1969, 12, 31, 23, 59, 59, 999999, tzinfo=dt.timezone(dt.timedelta(seconds=-86399)))),
               "decimal": "Decimal('-0') under fixed size 4 precision 1"})
    return sh.result()

"""Reference Avro binary codec over value trees (independent of fastavro).

A value tree is a tuple ``(kind, payload, start, end)``:

=========  =============================================================
kind       payload
=========  =============================================================
null       None
boolean    bool
int/long   int
float      float (already single precision)        double   float
bytes      bytes            string   str           fixed    bytes
enum       symbol index (int)
array      (items: list[tree], blocks: list[(count, negative_form)])
map        (entries: list[(key, tree)], blocks)
record     list[tree] in field order
union      (branch index, tree)
=========  =============================================================

``start``/``end`` are byte offsets when the tree comes from ``decode`` and
``None`` when it was built from a datum.
"""
import struct

from .schema import deref


class DecodeError(Exception):
    pass


# ---------------------------------------------------------------- varints --
def zigzag(n):
    return (n << 1) ^ (n >> 63) if -(1 << 63) <= n < (1 << 63) else _bad(n)


def _bad(n):
    raise ValueError("out of 64-bit range: %r" % (n,))


def enc_long(n):
    """zig-zag base-128 varint, minimal length (works for any Python int)."""
    z = (n << 1) if n >= 0 else ((-n) << 1) - 1
    out = bytearray()
    while True:
        b = z & 0x7F
        z >>= 7
        if z:
            out.append(b | 0x80)
        else:
            out.append(b)
            return bytes(out)


def dec_long(buf, pos):
    z = 0
    shift = 0
    while True:
        if pos >= len(buf):
            raise DecodeError("short varint")
        b = buf[pos]
        pos += 1
        z |= (b & 0x7F) << shift
        shift += 7
        if not b & 0x80:
            break
        if shift > 70:
            raise DecodeError("varint too long")
    return ((z >> 1) ^ -(z & 1)), pos


def enc_bytes(b):
    return enc_long(len(b)) + bytes(b)


def f32(x):
    return struct.unpack("<f", struct.pack("<f", x))[0]


# ----------------------------------------------------------------- decode --
def decode(node, buf, pos=0):
    """Decode one value; returns (tree, end position)."""
    node = deref(node)
    k = node.kind
    s = pos
    if k == "null":
        return ("null", None, s, s), pos
    if k == "boolean":
        if pos >= len(buf):
            raise DecodeError("short boolean")
        return ("boolean", buf[pos] != 0, s, pos + 1), pos + 1
    if k in ("int", "long"):
        v, pos = dec_long(buf, pos)
        return (k, v, s, pos), pos
    if k == "float":
        if pos + 4 > len(buf):
            raise DecodeError("short float")
        return ("float", struct.unpack("<f", buf[pos : pos + 4])[0], s, pos + 4), pos + 4
    if k == "double":
        if pos + 8 > len(buf):
            raise DecodeError("short double")
        return ("double", struct.unpack("<d", buf[pos : pos + 8])[0], s, pos + 8), pos + 8
    if k in ("bytes", "string"):
        n, pos = dec_long(buf, pos)
        if n < 0 or pos + n > len(buf):
            raise DecodeError("short %s" % k)
        raw = bytes(buf[pos : pos + n])
        pos += n
        if k == "string":
            try:
                raw = raw.decode("utf-8")
            except UnicodeDecodeError:
                raise DecodeError("bad utf-8")
        return (k, raw, s, pos), pos
    if k == "fixed":
        if pos + node.size > len(buf):
            raise DecodeError("short fixed")
        return ("fixed", bytes(buf[pos : pos + node.size]), s, pos + node.size), pos + node.size
    if k == "enum":
        i, pos = dec_long(buf, pos)
        if not 0 <= i < len(node.symbols):
            raise DecodeError("enum index %d out of range" % i)
        return ("enum", i, s, pos), pos
    if k == "union":
        i, pos = dec_long(buf, pos)
        if not 0 <= i < len(node.branches):
            raise DecodeError("union index %d out of range" % i)
        child, pos = decode(node.branches[i], buf, pos)
        return ("union", (i, child), s, pos), pos
    if k == "record":
        kids = []
        for f in node.fields:
            child, pos = decode(f.type, buf, pos)
            kids.append(child)
        return ("record", kids, s, pos), pos
    if k in ("array", "map"):
        items = []
        blocks = []
        while True:
            n, pos = dec_long(buf, pos)
            if n == 0:
                break
            neg = n < 0
            if neg:
                n = -n
                size, pos = dec_long(buf, pos)
                if size < 0:
                    raise DecodeError("negative block byte size")
                bstart = pos
            for _ in range(n):
                if k == "map":
                    kt, pos = decode(_STRING, buf, pos)
                    child, pos = decode(node.values, buf, pos)
                    items.append((kt[1], child))
                else:
                    child, pos = decode(node.items, buf, pos)
                    items.append(child)
            if neg and pos - bstart != size:
                raise DecodeError("block byte size mismatch")
            blocks.append((n, neg))
        return (k, (items, blocks), s, pos), pos
    raise DecodeError("cannot decode kind %r" % k)


class _S:
    kind = "string"


_STRING = _S()


def decode_all(node, buf):
    tree, pos = decode(node, buf, 0)
    if pos != len(buf):
        raise DecodeError("trailing bytes: %d of %d consumed" % (pos, len(buf)))
    return tree


# ----------------------------------------------------------------- encode --
def one_block(n, path):
    """The writer-canonical layout: a single positive-count block."""
    return [(n, False)] if n else []


def encode(node, tree, chooser=one_block, path=()):
    """Encode a value tree.  ``chooser(n, path)`` returns the block partition
    ``[(count, negative_form), ...]`` (counts > 0, summing to n) to use for the
    collection at ``path``."""
    node = deref(node)
    k = node.kind
    v = tree[1]
    if k == "null":
        return b""
    if k == "boolean":
        return b"\x01" if v else b"\x00"
    if k in ("int", "long"):
        return enc_long(v)
    if k == "float":
        return struct.pack("<f", v)
    if k == "double":
        return struct.pack("<d", v)
    if k == "bytes":
        return enc_bytes(v)
    if k == "string":
        return enc_bytes(v.encode("utf-8"))
    if k == "fixed":
        return bytes(v)
    if k == "enum":
        return enc_long(v)
    if k == "union":
        i, child = v
        return enc_long(i) + encode(node.branches[i], child, chooser, path + (i,))
    if k == "record":
        return b"".join(
            encode(f.type, c, chooser, path + (n,))
            for n, (f, c) in enumerate(zip(node.fields, v))
        )
    if k in ("array", "map"):
        items = v[0]
        enc = []
        for n, it in enumerate(items):
            if k == "map":
                enc.append(
                    enc_bytes(it[0].encode("utf-8"))
                    + encode(node.values, it[1], chooser, path + (n,))
                )
            else:
                enc.append(encode(node.items, it, chooser, path + (n,)))
        out = []
        i = 0
        for count, neg in chooser(len(items), path):
            body = b"".join(enc[i : i + count])
            i += count
            if neg:
                out.append(enc_long(-count) + enc_long(len(body)) + body)
            else:
                out.append(enc_long(count) + body)
        assert i == len(items), "chooser must cover all items"
        out.append(b"\x00")
        return b"".join(out)
    raise ValueError("cannot encode kind %r" % k)


# ------------------------------------------------------------- tree → py --
def to_py(node, tree):
    """Plain Python value of a tree (enum → symbol, union → branch value)."""
    node = deref(node)
    k = node.kind
    v = tree[1]
    if k == "enum":
        return node.symbols[v]
    if k == "union":
        return to_py(node.branches[v[0]], v[1])
    if k == "record":
        return {f.name: to_py(f.type, c) for f, c in zip(node.fields, v)}
    if k == "array":
        return [to_py(node.items, c) for c in v[0]]
    if k == "map":
        return {key: to_py(node.values, c) for key, c in v[0]}
    return v


def union_nodes(node, tree, path=()):
    """Yield (path, union node, branch index, child tree) for every union."""
    node = deref(node)
    k = node.kind
    v = tree[1]
    if k == "union":
        yield path, node, v[0], v[1]
        yield from union_nodes(node.branches[v[0]], v[1], path + (v[0],))
    elif k == "record":
        for n, (f, c) in enumerate(zip(node.fields, v)):
            yield from union_nodes(f.type, c, path + (f.name,))
    elif k == "array":
        for n, c in enumerate(v[0]):
            yield from union_nodes(node.items, c, path + (n,))
    elif k == "map":
        for key, c in v[0]:
            yield from union_nodes(node.values, c, path + (key,))


def index_positions(node, tree):
    """Yield (what, n_alternatives, start, end_of_index) for every union and
    enum index in a decoded tree (byte spans of the index varints)."""
    node = deref(node)
    k = node.kind
    v = tree[1]
    if k == "enum":
        yield "enum", len(node.symbols), tree[2], tree[3]
    elif k == "union":
        yield "union", len(node.branches), tree[2], v[1][2]
        yield from index_positions(node.branches[v[0]], v[1])
    elif k == "record":
        for f, c in zip(node.fields, v):
            yield from index_positions(f.type, c)
    elif k == "array":
        for c in v[0]:
            yield from index_positions(node.items, c)
    elif k == "map":
        for _key, c in v[0]:
            yield from index_positions(node.values, c)


def strip_spans(tree):
    k, v = tree[0], tree[1]
    if k == "union":
        return (k, (v[0], strip_spans(v[1])))
    if k == "record":
        return (k, [strip_spans(c) for c in v])
    if k == "array":
        return (k, [strip_spans(c) for c in v[0]])
    if k == "map":
        return (k, [(key, strip_spans(c)) for key, c in v[0]])
    return (k, v)

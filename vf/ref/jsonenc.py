"""The specification's JSON encoding of a value tree (independent of fastavro)."""
import math
import struct

from .schema import deref, NAMED


def label(branch):
    d = deref(branch)
    return d.name if d.kind in NAMED else d.kind


def encode(node, tree, union_type=True):
    node = deref(node)
    k = node.kind
    v = tree[1]
    if k in ("null", "boolean", "int", "long", "float", "double", "string"):
        return v
    if k in ("bytes", "fixed"):
        return bytes(v).decode("iso-8859-1")
    if k == "enum":
        return node.symbols[v]
    if k == "array":
        return [encode(node.items, c, union_type) for c in v[0]]
    if k == "map":
        return {key: encode(node.values, c, union_type) for key, c in v[0]}
    if k == "record":
        return {f.name: encode(f.type, c, union_type) for f, c in zip(node.fields, v)}
    if k == "union":
        i, child = v
        b = node.branches[i]
        inner = encode(b, child, union_type)
        if deref(b).kind == "null" or not union_type:
            return inner
        return {label(b): inner}
    raise ValueError(k)


def has_nonfinite(tree):
    k, v = tree[0], tree[1]
    if k in ("float", "double"):
        return not math.isfinite(v)
    if k == "union":
        return has_nonfinite(v[1])
    if k == "record":
        return any(has_nonfinite(c) for c in v)
    if k == "array":
        return any(has_nonfinite(c) for c in v[0])
    if k == "map":
        return any(has_nonfinite(c) for _k, c in v[0])
    return False


def json_equal(a, b):
    """JSON values equal with numbers compared by value (bool is not a number)."""
    if isinstance(a, bool) or isinstance(b, bool):
        return isinstance(a, bool) and isinstance(b, bool) and a == b
    if isinstance(a, (int, float)) and isinstance(b, (int, float)):
        return a == b or (a != a and b != b)
    if isinstance(a, dict) and isinstance(b, dict):
        return a.keys() == b.keys() and all(json_equal(a[k], b[k]) for k in a)
    if isinstance(a, list) and isinstance(b, list):
        return len(a) == len(b) and all(json_equal(x, y) for x, y in zip(a, b))
    return type(a) is type(b) and a == b


def f32(x):
    try:
        return struct.unpack("<f", struct.pack("<f", float(x)))[0]
    except (OverflowError, struct.error):
        return float(x)


def values_equal(node, a, b, tree=None):
    """Decoded Python values equal, numbers by value; float leaves at single
    precision (the JSON text keeps the double the caller handed in)."""
    node = deref(node)
    k = node.kind
    if k in ("float", "double", "int", "long"):
        if isinstance(a, bool) or isinstance(b, bool) or not isinstance(a, (int, float)) or not isinstance(b, (int, float)):
            return False
        if a != a or b != b:
            return a != a and b != b
        if k == "float":
            return f32(a) == f32(b)
        if k == "double":
            return float(a) == float(b)  # an int literal counts by its double value
        return a == b
    if k == "record":
        return (isinstance(a, dict) and isinstance(b, dict) and a.keys() == b.keys()
                and all(values_equal(f.type, a.get(f.name), b.get(f.name)) for f in node.fields))
    if k == "array":
        return isinstance(a, list) and isinstance(b, list) and len(a) == len(b) and all(values_equal(node.items, x, y) for x, y in zip(a, b))
    if k == "map":
        return isinstance(a, dict) and isinstance(b, dict) and a.keys() == b.keys() and all(values_equal(node.values, a[x], b[x]) for x in a)
    if k == "union":
        return any(values_equal(br, a, b) for br in node.branches)
    if k in ("bytes", "fixed"):
        return isinstance(a, (bytes, bytearray)) and isinstance(b, (bytes, bytearray)) and bytes(a) == bytes(b)
    return type(a) is type(b) and a == b


def doc_matches(node, tree, doc, union_type=True):
    """Does the JSON document `doc` encode the value tree?  Numbers by value:
    under float the text may carry the double the caller supplied (compared at
    single precision), under double an integer literal counts by its double
    value.  Returns None when it matches, else a short description."""
    node = deref(node)
    k = node.kind
    v = tree[1]
    if k == "null":
        return None if doc is None else "null expected, got %r" % (doc,)
    if k == "boolean":
        return None if isinstance(doc, bool) and doc == v else "boolean %r expected, got %r" % (v, doc)
    if k in ("int", "long"):
        ok = isinstance(doc, int) and not isinstance(doc, bool) and doc == v
        return None if ok else "%s %r expected, got %r" % (k, v, doc)
    if k in ("float", "double"):
        if isinstance(doc, bool) or not isinstance(doc, (int, float)):
            return "number expected, got %r" % (doc,)
        try:
            x = float(doc)
        except OverflowError:
            return "number out of range"
        if k == "float":
            return None if f32(x) == v else "float %r expected, got %r" % (v, doc)
        return None if x == v else "double %r expected, got %r" % (v, doc)
    if k == "string":
        return None if isinstance(doc, str) and doc == v else "string %r expected, got %r" % (v[:40], doc if not isinstance(doc, str) else doc[:40])
    if k in ("bytes", "fixed"):
        want = bytes(v).decode("iso-8859-1")
        return None if isinstance(doc, str) and doc == want else "%s as code points 0-255 expected %r, got %r" % (k, want[:40], doc if not isinstance(doc, str) else doc[:40])
    if k == "enum":
        return None if doc == node.symbols[v] else "symbol %r expected, got %r" % (node.symbols[v], doc)
    if k == "array":
        if not isinstance(doc, list) or len(doc) != len(v[0]):
            return "array of %d expected, got %r" % (len(v[0]), type(doc).__name__)
        for c, d in zip(v[0], doc):
            r = doc_matches(node.items, c, d, union_type)
            if r:
                return r
        return None
    if k == "map":
        if not isinstance(doc, dict) or set(doc) != {key for key, _c in v[0]}:
            return "object with keys %r expected, got %r" % (sorted(key for key, _c in v[0])[:6], sorted(doc)[:6] if isinstance(doc, dict) else doc)
        for key, c in v[0]:
            r = doc_matches(node.values, c, doc[key], union_type)
            if r:
                return r
        return None
    if k == "record":
        names = [f.name for f in node.fields]
        if not isinstance(doc, dict) or set(doc) != set(names):
            return "object with fields %r expected, got %r" % (names[:8], sorted(doc)[:8] if isinstance(doc, dict) else doc)
        for f, c in zip(node.fields, v):
            r = doc_matches(f.type, c, doc[f.name], union_type)
            if r:
                return "%s: %s" % (f.name, r)
        return None
    if k == "union":
        i, child = v
        b = node.branches[i]
        if deref(b).kind == "null":
            return None if doc is None else "null branch expected null, got %r" % (doc,)
        if not union_type:
            return doc_matches(b, child, doc, union_type)
        lab = label(b)
        if not isinstance(doc, dict) or list(doc) != [lab]:
            return "union value must be wrapped as {%r: ...}, got %r" % (lab, doc if not isinstance(doc, dict) else list(doc))
        return doc_matches(b, child, doc[lab], union_type)
    return "unsupported kind"

"""Schema resolution as the specification (and property C08) word it,
datum-driven, independent of fastavro."""
import struct

from .schema import deref, NAMED


class NoResolution(Exception):
    pass


class Either(Exception):
    """The rules leave the outcome open for this datum (A11)."""


PROMOTE = {
    "int": ("long", "float", "double"),
    "long": ("float", "double"),
    "float": ("double",),
    "string": ("bytes",),
    "bytes": ("string",),
}


def unqual(name):
    return name.rpartition(".")[2]


def names_match(w, r):
    return unqual(w.name) == unqual(r.name) or w.name in r.aliases or unqual(w.name) in r.aliases


def match(w, r):
    """Schema-level 'schemas match' of the specification (shallow for records)."""
    w, r = deref(w), deref(r)
    if w.kind == "union" or r.kind == "union":
        return True
    if w.kind == "array" and r.kind == "array":
        return match(w.items, r.items)
    if w.kind == "map" and r.kind == "map":
        return match(w.values, r.values)
    if w.kind in NAMED or r.kind in NAMED:
        if w.kind != r.kind:
            return False
        if not names_match(w, r):
            return False
        if w.kind == "fixed" and w.size != r.size:
            return False
        return True
    if w.kind == r.kind:
        return True
    return r.kind in PROMOTE.get(w.kind, ())


def same_type(w, r):
    w, r = deref(w), deref(r)
    return w.kind == r.kind and match(w, r)


def pick(w, R, empty=False):
    """First reader branch of the same type (a branch carrying the very same
    full name before one that only matches by unqualified name or alias),
    otherwise the first reachable by promotion."""
    wd = deref(w)
    if wd.kind in NAMED:
        for b in R.branches:
            bd = deref(b)
            if bd.kind == wd.kind and bd.name == wd.name and match(w, b):
                return b
    for b in R.branches:
        if same_type(w, b):
            return b
    for b in R.branches:
        if deref(b).kind != "union" and match(w, b):
            return b
    if empty and any(deref(b).kind == wd.kind for b in R.branches):
        raise Either("empty collection, reader branch of the same kind with unmatched element type")
    raise NoResolution("no reader branch matches writer %r" % (wd.kind,))


def is_hollow(tree):
    """A collection that (transitively) holds nothing but empty collections."""
    k, v = tree[0], tree[1]
    if k == "array":
        return all(is_hollow(c) for c in v[0])
    if k == "map":
        return all(is_hollow(c) for _key, c in v[0])
    return False


def default_value(rtype, d):
    """A reader field default as the Python value a reader returns (bytes and
    fixed defaults are the ISO-8859-1 bytes of the JSON string)."""
    from .conform import default_datum

    return default_datum(rtype, d)


class _Ctx:
    def __init__(self):
        self.either = None
        self.error = None


_HOLE = object()


def resolve(w, r, tree):
    """Value the rules give, or NoResolution; Either when some part of the
    datum falls into a case the statement leaves open (then nothing is judged,
    not even the error type, because the library may fail on that part first)."""
    ctx = _Ctx()
    v = _resolve(w, r, tree, ctx)
    if ctx.either is not None:
        raise Either(ctx.either)
    if ctx.error is not None:
        raise NoResolution(ctx.error)
    return v


def _fail(ctx, msg):
    if ctx.error is None:
        ctx.error = msg
    return _HOLE


def _resolve(w, r, tree, ctx):
    w, r = deref(w), deref(r)
    k = w.kind
    v = tree[1]
    empty = k in ("array", "map") and not v[0]
    hollow = k in ("array", "map") and is_hollow(tree)
    try:
        if k == "union":
            wb = w.branches[v[0]]
            child = v[1]
            wbd = deref(wb)
            cempty = wbd.kind in ("array", "map") and is_hollow(child)
            if r.kind == "union":
                return _resolve(wb, pick(wb, r, cempty), child, ctx)
            if not match(wb, r):
                if cempty and r.kind == wbd.kind:
                    ctx.either = "empty collection of non-matching element types"
                    return _HOLE
                return _fail(ctx, "writer branch %r does not match reader %r" % (wbd.kind, r.kind))
            return _resolve(wb, r, child, ctx)
        if r.kind == "union":
            return _resolve(w, pick(w, r, hollow), tree, ctx)
    except NoResolution as e:
        return _fail(ctx, str(e))
    except Either as e:
        ctx.either = str(e)
        return _HOLE
    if k in ("array", "map") and r.kind == k:
        # element types are judged on the elements actually present (datum-relative
        # rules); an empty collection of unmatched element types is left open (A11)
        if empty:
            if not match(w, r):
                ctx.either = "empty collection of non-matching element types"
                return _HOLE
            return [] if k == "array" else {}
        if k == "array":
            return [_resolve(w.items, r.items, c, ctx) for c in v[0]]
        return {key: _resolve(w.values, r.values, c, ctx) for key, c in v[0]}
    if not match(w, r):
        return _fail(ctx, "%r does not match %r" % (k, r.kind))
    if k in ("null", "boolean", "int", "long", "float", "double", "bytes", "string"):
        if r.kind == k:
            return v
        if k in ("int", "long") and r.kind in ("float", "double"):
            return float(v)
        if k == "int" and r.kind == "long":
            return v
        if k == "float" and r.kind == "double":
            return v
        if k == "string" and r.kind == "bytes":
            return v.encode("utf-8")
        if k == "bytes" and r.kind == "string":
            try:
                return v.decode("utf-8")
            except UnicodeDecodeError:
                ctx.either = "bytes that are not UTF-8 promoted to string"
                return _HOLE
        return _fail(ctx, "primitive mismatch")
    if k == "fixed":
        return v
    if k == "enum":
        sym = w.symbols[v]
        if sym in r.symbols:
            return sym
        if r.has_enum_default:
            return r.enum_default
        return _fail(ctx, "symbol %r unknown to the reader, no default" % sym)
    if k == "array":
        return [_resolve(w.items, r.items, c, ctx) for c in v[0]]
    if k == "map":
        return {key: _resolve(w.values, r.values, c, ctx) for key, c in v[0]}
    if k == "record":
        out = {}
        wf = {f.name: (f, c) for f, c in zip(w.fields, v)}
        for rf in r.fields:
            hit = None
            if rf.name in wf:
                hit = wf[rf.name]
            else:
                for a in rf.aliases:
                    if a in wf:
                        hit = wf[a]
                        break
            if hit is not None:
                out[rf.name] = _resolve(hit[0].type, rf.type, hit[1], ctx)
            elif rf.has_default:
                out[rf.name] = default_value(rf.type, rf.default)
            else:
                _fail(ctx, "reader field %r has no writer counterpart and no default" % rf.name)
        return out
    return _fail(ctx, "unsupported kind %r" % k)

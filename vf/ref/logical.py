"""Closed-form logical-type conversions (independent of fastavro).

Only integer arithmetic on the fields of ``date``/``time``/``datetime`` and on
``Decimal.as_tuple()``; the day count is Howard Hinnant's ``days_from_civil``
and does not use ``date.toordinal``."""
import datetime
import decimal
import uuid

SUPPORTED = {
    ("long", "timestamp-millis"),
    ("long", "timestamp-micros"),
    ("long", "local-timestamp-millis"),
    ("long", "local-timestamp-micros"),
    ("int", "date"),
    ("int", "time-millis"),
    ("long", "time-micros"),
    ("string", "uuid"),
    ("bytes", "decimal"),
    ("fixed", "decimal"),
}


class Unrepresentable(Exception):
    """The value cannot be stored exactly under this logical type."""


def known(node):
    return (node.kind, node.logical) in SUPPORTED


def days_from_civil(y, m, d):
    y -= m <= 2
    era = (y if y >= 0 else y - 399) // 400
    yoe = y - era * 400
    doy = (153 * (m + (-3 if m > 2 else 9)) + 2) // 5 + d - 1
    doe = yoe * 365 + yoe // 4 - yoe // 100 + doy
    return era * 146097 + doe - 719468


def civil_from_days(z):
    z += 719468
    era = (z if z >= 0 else z - 146096) // 146097
    doe = z - era * 146097
    yoe = (doe - doe // 1460 + doe // 36524 - doe // 146096) // 365
    y = yoe + era * 400
    doy = doe - (365 * yoe + yoe // 4 - yoe // 100)
    mp = (5 * doy + 2) // 153
    d = doy - (153 * mp + 2) // 5 + 1
    m = mp + (3 if mp < 10 else -9)
    return (y + (m <= 2), m, d)


def micros_of_naive(dt):
    """Microseconds from 1970-01-01T00:00:00 of the naive fields of dt."""
    days = days_from_civil(dt.year, dt.month, dt.day)
    return (
        (days * 86400 + dt.hour * 3600 + dt.minute * 60 + dt.second) * 1000000
        + dt.microsecond
    )


def micros_of_aware(dt):
    off = dt.utcoffset()
    offus = (off.days * 86400 + off.seconds) * 1000000 + off.microseconds
    return micros_of_naive(dt) - offus


def naive_from_micros(us):
    days, rem = divmod(us, 86400 * 1000000)
    y, m, d = civil_from_days(days)
    secs, micro = divmod(rem, 1000000)
    return datetime.datetime(y, m, d, secs // 3600, secs // 60 % 60, secs % 60, micro)


def unscaled(d, scale):
    """Exact unscaled integer of Decimal d at the given scale."""
    sign, digits, exp = d.as_tuple()
    if not isinstance(exp, int):
        raise Unrepresentable("not finite")
    shift = exp + scale
    if shift < 0:
        # representable only if the dropped digits are all zero; the
        # statement says "more fractional digits than the scale" must raise
        raise Unrepresentable("more fractional digits than scale")
    n = 0
    for dig in digits:
        n = n * 10 + dig
    n *= 10**shift
    return -n if sign else n


def twos(n, size=None):
    """Big-endian two's complement; minimal length unless size is given."""
    if size is None:
        size = 1
        while not -(1 << (8 * size - 1)) <= n < (1 << (8 * size - 1)):
            size += 1
    if not -(1 << (8 * size - 1)) <= n < (1 << (8 * size - 1)):
        raise Unrepresentable("does not fit %d bytes" % size)
    return (n & ((1 << (8 * size)) - 1)).to_bytes(size, "big")


def prepare(node, d):
    """Logical value → underlying datum (other values pass through)."""
    key = (node.kind, node.logical)
    if key not in SUPPORTED:
        return d
    lt = node.logical
    if lt == "date":
        if isinstance(d, datetime.date):  # a datetime is a date (Python subclassing)
            return days_from_civil(d.year, d.month, d.day)
        return d
    if lt == "time-millis":
        if isinstance(d, datetime.time):
            return (d.hour * 3600 + d.minute * 60 + d.second) * 1000 + d.microsecond // 1000
        return d
    if lt == "time-micros":
        if isinstance(d, datetime.time):
            return (d.hour * 3600 + d.minute * 60 + d.second) * 1000000 + d.microsecond
        return d
    if lt in ("timestamp-millis", "timestamp-micros"):
        if isinstance(d, datetime.datetime):
            us = micros_of_aware(d) if d.tzinfo is not None and d.utcoffset() is not None else micros_of_naive(d)
            return us // 1000 if lt.endswith("millis") else us
        return d
    if lt in ("local-timestamp-millis", "local-timestamp-micros"):
        if isinstance(d, datetime.datetime):
            us = micros_of_naive(d)
            return us // 1000 if lt.endswith("millis") else us
        return d
    if lt == "uuid":
        if isinstance(d, uuid.UUID):
            return str(d)
        return d
    if lt == "decimal":
        if isinstance(d, decimal.Decimal):
            scale = node.attrs.get("scale", 0)
            prec = node.attrs["precision"]
            sign, digits, exp = d.as_tuple()
            if not isinstance(exp, int):
                raise Unrepresentable("not finite")
            if len(digits) > prec:
                raise Unrepresentable("more digits than precision")
            n = unscaled(d, scale)
            return twos(n, node.size if node.kind == "fixed" else None)
        return d
    return d


def read_back(node, raw):
    """Underlying stored value → the Python value a reader returns."""
    lt = node.logical
    if lt == "date":
        return datetime.date(*civil_from_days(raw))
    if lt == "time-millis":
        return datetime.time(raw // 3600000, raw // 60000 % 60, raw // 1000 % 60, raw % 1000 * 1000)
    if lt == "time-micros":
        return datetime.time(
            raw // 3600000000, raw // 60000000 % 60, raw // 1000000 % 60, raw % 1000000
        )
    if lt == "timestamp-millis":
        return naive_from_micros(raw * 1000).replace(tzinfo=datetime.timezone.utc)
    if lt == "timestamp-micros":
        return naive_from_micros(raw).replace(tzinfo=datetime.timezone.utc)
    if lt == "local-timestamp-millis":
        return naive_from_micros(raw * 1000)
    if lt == "local-timestamp-micros":
        return naive_from_micros(raw)
    if lt == "uuid":
        return uuid.UUID(raw)
    if lt == "decimal":
        n = int.from_bytes(raw, "big", signed=True)
        scale = node.attrs.get("scale", 0)
        sign = 1 if n < 0 else 0
        digits = tuple(int(c) for c in str(abs(n)))
        return decimal.Decimal((sign, digits, -scale))
    return raw

"""Reference schema model: names, namespaces, references.

Independent of fastavro (never imports it).  Implements the Avro
specification's naming rules:

* a dotted ``name`` is a full name and fixes the namespace;
* otherwise an explicit ``namespace`` attribute is used;
* otherwise the namespace of the enclosing named type;
* a by-name reference containing a dot is a full name, one without a dot lives
  in the namespace of the enclosing definition.
"""

PRIMS = ("null", "boolean", "int", "long", "float", "double", "bytes", "string")
NAMED = ("record", "enum", "fixed")
import re

NAME_RE = re.compile(r"[A-Za-z_][A-Za-z0-9_]*\Z")


class SchemaError(Exception):
    pass


class Undefined(SchemaError):
    def __init__(self, name):
        super().__init__(name)
        self.name = name


class Redefined(SchemaError):
    pass


class Malformed(SchemaError):
    pass


class Field:
    __slots__ = ("name", "type", "has_default", "default", "aliases", "raw")

    def __init__(self, name, type_, has_default, default, aliases, raw):
        self.name = name
        self.type = type_
        self.has_default = has_default
        self.default = default
        self.aliases = aliases
        self.raw = raw


class Node:
    __slots__ = (
        "kind",
        "name",
        "ns",
        "fields",
        "symbols",
        "size",
        "items",
        "values",
        "branches",
        "logical",
        "attrs",
        "aliases",
        "enum_default",
        "has_enum_default",
        "env",
        "dictform",
    )

    def __init__(self, kind, **kw):
        self.kind = kind
        self.name = None
        self.ns = ""
        self.fields = None
        self.symbols = None
        self.size = None
        self.items = None
        self.values = None
        self.branches = None
        self.logical = None
        self.attrs = {}
        self.aliases = []
        self.enum_default = None
        self.has_enum_default = False
        self.env = None
        self.dictform = False
        for k, v in kw.items():
            setattr(self, k, v)

    def __repr__(self):
        if self.kind == "ref":
            return "<ref %s>" % self.name
        if self.kind in NAMED:
            return "<%s %s>" % (self.kind, self.name)
        return "<%s>" % self.kind


class Env:
    def __init__(self):
        self.table = {}
        self.order = []  # full names in definition order


def deref(node):
    """Follow by-name references to the definition."""
    while node.kind == "ref":
        node = node.env.table[node.name]
    return node


def split_name(js, ns):
    """(namespace, fullname) of a named-type JSON object per the spec."""
    if "name" not in js or not isinstance(js["name"], str):
        raise Malformed("named type without a name")
    name = js["name"]
    if "." in name:
        return name.rsplit(".", 1)[0], name
    space = js.get("namespace", ns)
    if space:
        return space, space + "." + name
    return "", name


def build(js, env=None, ns=""):
    """Build the node tree for a JSON schema; records definitions in env."""
    if env is None:
        env = Env()
    return _build(js, env, ns), env


def _build(js, env, ns):
    if isinstance(js, str):
        if js in PRIMS:
            return Node(js)
        full = js if "." in js else (ns + "." + js if ns else js)
        if full not in env.table:
            raise Undefined(full)
        return Node("ref", name=full, env=env)
    if isinstance(js, list):
        return Node("union", branches=[_build(b, env, ns) for b in js])
    if not isinstance(js, dict):
        raise Malformed("schema must be str, list or dict")
    t = js.get("type")
    lt = js.get("logicalType")
    attrs = {k: v for k, v in js.items() if k in ("precision", "scale")}
    if t in PRIMS:
        return Node(t, logical=lt, attrs=attrs, dictform=True)
    if t == "array":
        return Node("array", items=_build(js["items"], env, ns), logical=lt)
    if t == "map":
        return Node("map", values=_build(js["values"], env, ns), logical=lt)
    if t == "error":
        t = "record"  # error records encode, validate and resolve like records
    if t in NAMED:
        space, full = split_name(js, ns)
        if full in env.table:
            raise Redefined(full)
        node = Node(
            t,
            name=full,
            ns=space,
            logical=lt,
            attrs=attrs,
            aliases=list(js.get("aliases", [])),
            env=env,
        )
        env.table[full] = node
        env.order.append(full)
        if t == "enum":
            node.symbols = list(js["symbols"])
            if "default" in js:
                node.has_enum_default = True
                node.enum_default = js["default"]
        elif t == "fixed":
            node.size = js["size"]
        else:
            node.fields = []
            for f in js.get("fields", []):
                ft = _build(f["type"], env, space)
                node.fields.append(
                    Field(
                        f["name"],
                        ft,
                        "default" in f,
                        f.get("default"),
                        list(f.get("aliases", [])),
                        f,
                    )
                )
        return node
    raise Malformed("unknown type %r" % (t,))


def kind_of(node):
    return deref(node).kind


def hint_name(node):
    """The name a (name, value) tuple uses for this union branch."""
    d = deref(node)
    if d.kind in NAMED:
        return d.name
    return d.kind


def walk(node, seen=None):
    """Yield every node reachable (definitions once)."""
    if seen is None:
        seen = set()
    yield node
    if node.kind == "ref":
        return
    if node.kind in NAMED:
        if node.name in seen:
            return
        seen.add(node.name)
    if node.kind == "record":
        for f in node.fields:
            yield from walk(f.type, seen)
    elif node.kind == "array":
        yield from walk(node.items, seen)
    elif node.kind == "map":
        yield from walk(node.values, seen)
    elif node.kind == "union":
        for b in node.branches:
            yield from walk(b, seen)

"""Reference Avro object-container parser and writer (independent of fastavro).

Layout per the specification: magic 'Obj\\x01', file metadata (map<bytes>,
any block chunking), 16-byte sync marker, then blocks of <count:long>
<size:long> <payload: size bytes, codec-compressed> <sync>."""
import bz2
import json
import lzma
import zlib

from . import binary as RB
from . import schema as RS

MAGIC = b"Obj\x01"


class ContainerError(Exception):
    pass


class Block:
    __slots__ = ("offset", "end", "count", "size", "payload", "data", "unused")

    def __init__(self, offset, end, count, size, payload, data, unused):
        self.offset = offset
        self.end = end
        self.count = count
        self.size = size
        self.payload = payload
        self.data = data
        self.unused = unused


class Container:
    def __init__(self):
        self.meta = {}
        self.schema = None
        self.codec = "null"
        self.codec_key_present = False
        self.sync = None
        self.header_len = None
        self.header_chunks = []
        self.blocks = []

    @property
    def boundaries(self):
        return [self.header_len] + [b.end for b in self.blocks]


def decompress(codec, payload):
    """Returns (data, number of unused trailing payload bytes)."""
    if codec == "null":
        return bytes(payload), 0
    if codec == "deflate":
        d = zlib.decompressobj(-15)
        try:
            data = d.decompress(payload)
        except zlib.error as e:
            raise ContainerError("deflate: %s" % e)
        if not d.eof:
            raise ContainerError("deflate stream incomplete")
        return data, len(d.unused_data)
    if codec == "bzip2":
        try:
            return bz2.decompress(payload), 0
        except (OSError, ValueError) as e:
            raise ContainerError("bzip2: %s" % e)
    if codec == "xz":
        try:
            return lzma.decompress(payload), 0
        except lzma.LZMAError as e:
            raise ContainerError("xz: %s" % e)
    raise ContainerError("codec %r not available to the reference parser" % codec)


def compress(codec, data, level=None):
    if codec == "null":
        return bytes(data)
    if codec == "deflate":
        c = zlib.compressobj(6 if level is None else level, zlib.DEFLATED, -15)
        return c.compress(data) + c.flush()
    if codec == "bzip2":
        return bz2.compress(data) if level is None else bz2.compress(data, level)
    if codec == "xz":
        # what other encoders produce: other presets, other integrity checks,
        # the 64 MiB dictionary of preset 9 (declared in the stream header,
        # whatever the amount of data)
        if level is None:
            return lzma.compress(data)
        if level == "bigdict":
            return lzma.compress(data, format=lzma.FORMAT_XZ, check=lzma.CHECK_CRC64, filters=[
                {"id": lzma.FILTER_LZMA2, "dict_size": 64 << 20, "mode": lzma.MODE_FAST, "mf": lzma.MF_HC3, "nice_len": 8, "depth": 1}])
        if level in ("none", "crc32", "sha256"):
            return lzma.compress(data, check={"none": lzma.CHECK_NONE, "crc32": lzma.CHECK_CRC32, "sha256": lzma.CHECK_SHA256}[level])
        return lzma.compress(data, preset=level)
    raise ContainerError("codec %r not available" % codec)


def parse_header(buf):
    c = Container()
    if buf[:4] != MAGIC:
        raise ContainerError("bad magic")
    pos = 4
    try:
        while True:
            n, pos = RB.dec_long(buf, pos)
            if n == 0:
                break
            neg = n < 0
            if neg:
                n = -n
                size, pos = RB.dec_long(buf, pos)
                start = pos
            for _ in range(n):
                klen, pos = RB.dec_long(buf, pos)
                if klen < 0 or pos + klen > len(buf):
                    raise ContainerError("short header key")
                key = bytes(buf[pos : pos + klen]).decode("utf-8")
                pos += klen
                vlen, pos = RB.dec_long(buf, pos)
                if vlen < 0 or pos + vlen > len(buf):
                    raise ContainerError("short header value")
                c.meta[key] = bytes(buf[pos : pos + vlen])
                pos += vlen
            if neg and pos - start != size:
                raise ContainerError("header map block size mismatch")
            c.header_chunks.append((n, neg))
    except RB.DecodeError as e:
        raise ContainerError("header: %s" % e)
    if pos + 16 > len(buf):
        raise ContainerError("short header sync")
    c.sync = bytes(buf[pos : pos + 16])
    pos += 16
    c.header_len = pos
    if "avro.schema" not in c.meta:
        raise ContainerError("no avro.schema in header")
    try:
        c.schema = json.loads(c.meta["avro.schema"].decode("utf-8"))
    except ValueError as e:
        raise ContainerError("schema json: %s" % e)
    c.codec_key_present = "avro.codec" in c.meta
    c.codec = c.meta.get("avro.codec", b"null").decode("utf-8")
    return c


def parse(buf, strict=True):
    """Parse a complete container file.  With strict=False stops at the first
    incomplete block and returns what was complete (used to learn the block
    boundaries of truncated files)."""
    buf = bytes(buf)
    try:
        c = parse_header(buf)
    except (UnicodeDecodeError, IndexError, OverflowError, MemoryError, json.JSONDecodeError) as e:
        raise ContainerError("header: %s" % type(e).__name__)
    pos = c.header_len
    while pos < len(buf):
        off = pos
        try:
            count, pos = RB.dec_long(buf, pos)
            size, pos = RB.dec_long(buf, pos)
        except RB.DecodeError as e:
            if strict:
                raise ContainerError("block header at %d: %s" % (off, e))
            break
        if count < 0 or size < 0 or pos + size + 16 > len(buf):
            if strict:
                raise ContainerError("block at %d: short payload/sync or negative count" % off)
            break
        payload = buf[pos : pos + size]
        pos += size
        if buf[pos : pos + 16] != c.sync:
            raise ContainerError("block at %d: sync marker differs from the header's" % off)
        pos += 16
        data, unused = decompress(c.codec, payload)
        c.blocks.append(Block(off, pos, count, size, payload, data, unused))
    return c


def records(c, node=None):
    """Decode all records of a parsed container with the reference decoder;
    every block payload must hold exactly `count` records."""
    if node is None:
        node, _env = RS.build(c.schema)
    out = []
    for b in c.blocks:
        pos = 0
        for _ in range(b.count):
            try:
                tree, pos = RB.decode(node, b.data, pos)
            except RB.DecodeError as e:
                raise ContainerError("block at %d: record undecodable: %s" % (b.offset, e))
            out.append(tree)
        if pos != len(b.data):
            raise ContainerError(
                "block at %d: %d payload bytes left after %d records" % (b.offset, len(b.data) - pos, b.count)
            )
    return out


def write(schema_json, encoded_records, partition, codec="null", sync=b"\x07" * 16, meta=None,
          header_chunks=None, codec_key=True, level=None, schema_text=None):
    """Independent writer.  ``partition`` = record counts per block (zeros
    allowed = empty blocks), summing to len(encoded_records).  ``header_chunks``
    = list of (n_entries, negative_form) splitting the metadata map."""
    entries = []
    text = schema_text if schema_text is not None else json.dumps(schema_json)
    entries.append(("avro.schema", text.encode("utf-8")))
    if codec_key:
        entries.append(("avro.codec", codec.encode("utf-8")))
    for k, v in (meta or {}).items():
        entries.append((k, v if isinstance(v, bytes) else v.encode("utf-8")))
    if header_chunks is None:
        header_chunks = [(len(entries), False)]
    assert sum(n for n, _ in header_chunks) == len(entries)
    out = [MAGIC]
    i = 0
    for n, neg in header_chunks:
        body = b"".join(
            RB.enc_bytes(k.encode("utf-8")) + RB.enc_bytes(v) for k, v in entries[i : i + n]
        )
        i += n
        if neg:
            out.append(RB.enc_long(-n) + RB.enc_long(len(body)) + body)
        else:
            out.append(RB.enc_long(n) + body)
    out.append(b"\x00")
    out.append(sync)
    header_len = sum(len(x) for x in out)
    i = 0
    bounds = [header_len]
    for count in partition:
        data = b"".join(encoded_records[i : i + count])
        i += count
        payload = compress(codec, data, level)
        out.append(RB.enc_long(count) + RB.enc_long(len(payload)) + payload + sync)
        bounds.append(bounds[-1] + len(out[-1]))
    assert i == len(encoded_records)
    return b"".join(out), bounds

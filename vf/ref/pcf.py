"""Parsing Canonical Form and the CRC-64-AVRO fingerprint, from the
specification text (independent of fastavro)."""
import json

from .schema import PRIMS, split_name

FIELD_ORDER = ["name", "type", "fields", "symbols", "items", "values", "size"]


def _q(s):
    """[STRINGS]: JSON string with minimal escapes, non-ASCII left as is."""
    return json.dumps(s, ensure_ascii=False)


def pcf(js):
    return _pcf(js, "", set())


def _pcf(js, ns, seen):
    if isinstance(js, str):
        if js in PRIMS:
            return _q(js)
        full = js if "." in js else (ns + "." + js if ns else js)
        return _q(full)
    if isinstance(js, list):
        return "[" + ",".join(_pcf(b, ns, seen) for b in js) + "]"
    t = js["type"]
    if t in PRIMS:
        return _q(t)  # [PRIMITIVES]
    if t == "array":
        return '{"type":"array","items":' + _pcf(js["items"], ns, seen) + "}"
    if t == "map":
        return '{"type":"map","values":' + _pcf(js["values"], ns, seen) + "}"
    space, full = split_name(js, ns)
    if t == "enum":
        return '{"name":%s,"type":"enum","symbols":[%s]}' % (
            _q(full),
            ",".join(_q(s) for s in js["symbols"]),
        )
    if t == "fixed":
        return '{"name":%s,"type":"fixed","size":%d}' % (_q(full), js["size"])
    if t in ("record", "error"):
        fields = ",".join(
            '{"name":%s,"type":%s}' % (_q(f["name"]), _pcf(f["type"], space, seen))
            for f in js.get("fields", [])
        )
        return '{"name":%s,"type":"record","fields":[%s]}' % (_q(full), fields)
    if isinstance(t, (dict, list)):
        return _pcf(t, ns, seen)
    raise ValueError("cannot canonicalise %r" % (t,))


EMPTY64 = 0xC15D213AA4D7A795


def crc64(data):
    """Bit-serial Rabin fingerprint (no table), as the spec defines it."""
    fp = EMPTY64
    for b in data:
        fp ^= b
        for _ in range(8):
            fp = (fp >> 1) ^ (EMPTY64 & -(fp & 1))
    return fp


def crc64_hex(text):
    return crc64(text.encode("utf-8")).to_bytes(8, "little").hex()

"""The documented Python mapping: conformance predicate (C10), the union
branch rule of C09, the normalisation of C01 and structural equality.

Independent of fastavro."""
import array
import datetime
import decimal
import math
import struct
import uuid
from collections.abc import Mapping

from .schema import deref, hint_name, NAMED
from . import logical as L

I32 = (-(1 << 31), (1 << 31) - 1)
I64 = (-(1 << 63), (1 << 63) - 1)


class NoBranch(Exception):
    """No union branch fits (or a hint names no branch)."""


def _is_int(d):
    return isinstance(d, int) and not isinstance(d, bool)


def _seq(d, loose=False):
    """Non-string sequences.  Whether bytes/bytearray (non-str Sequences of
    ints) count is not fixed by the statement (A17): strict reading says no,
    loose reading says yes; oracles accept either where it matters."""
    if loose and isinstance(d, (bytes, bytearray)):
        return True
    return isinstance(d, (list, tuple, range, array.array))


def prepare(node, d):
    """Logical-type values → underlying datum; anything else passes through."""
    if node.logical:
        return L.prepare(node, d)
    return d


def conforms(node, d, strict=False, tuples=True, loose=False):
    node = deref(node)
    if node.logical:
        try:
            d = L.prepare(node, d)
        except L.Unrepresentable:
            return False
    k = node.kind
    if k == "null":
        return d is None
    if k == "boolean":
        return isinstance(d, bool)
    if k == "int":
        return _is_int(d) and I32[0] <= d <= I32[1]
    if k == "long":
        return _is_int(d) and I64[0] <= d <= I64[1]
    if k in ("float", "double"):
        return isinstance(d, (int, float)) and not isinstance(d, bool)
    if k == "bytes":
        return isinstance(d, (bytes, bytearray))
    if k == "string":
        return isinstance(d, str)
    if k == "fixed":
        return isinstance(d, bytes) and len(d) == node.size
    if k == "enum":
        return isinstance(d, str) and d in node.symbols
    if k == "array":
        return _seq(d, loose) and all(conforms(node.items, x, strict, tuples, loose) for x in d)
    if k == "map":
        return (
            isinstance(d, Mapping)
            and all(isinstance(key, str) for key in d)
            and all(conforms(node.values, x, strict, tuples, loose) for x in d.values())
        )
    if k == "record":
        if not isinstance(d, Mapping):
            return False
        if "-type" in d and d["-type"] != node.name:
            return False
        for f in node.fields:
            if f.name in d:
                if not conforms(f.type, d[f.name], strict, tuples, loose):
                    return False
            elif f.has_default:
                continue
            elif strict or not conforms(f.type, None, strict, tuples, loose):
                return False
        return True
    if k == "union":
        if tuples and type(d) is tuple and len(d) == 2:
            for b in node.branches:
                if hint_name(b) == d[0]:
                    return conforms(b, d[1], strict, tuples, loose)
            return False
        return any(conforms(b, d, strict, tuples, loose) for b in node.branches)
    raise ValueError(k)


F32_MAX = struct.unpack("<f", b"\xff\xff\x7f\x7f")[0]


def float_out_of_range(node, d, tuples=True):
    """True if, under some branch the datum conforms to, a 'float' leaf would
    receive a finite value beyond the float32 range.  Such data are outside
    the properties' scope ("float-typed leaves restricted to values
    representable in the target width")."""
    node = deref(node)
    k = node.kind
    if k == "float":
        return (
            isinstance(d, (int, float))
            and not isinstance(d, bool)
            and d == d
            and abs(d) != float("inf")
            and abs(d) > F32_MAX
        )
    if k == "array":
        return _seq(d, True) and any(float_out_of_range(node.items, x, tuples) for x in d)
    if k == "map":
        return isinstance(d, Mapping) and any(float_out_of_range(node.values, x, tuples) for x in d.values())
    if k == "record":
        return isinstance(d, Mapping) and any(
            float_out_of_range(f.type, d[f.name], tuples) for f in node.fields if f.name in d
        )
    if k == "union":
        if tuples and type(d) is tuple and len(d) == 2:
            return any(hint_name(b) == d[0] and float_out_of_range(b, d[1], tuples) for b in node.branches)
        # next to a double branch the float branch never receives an unhinted
        # number (rule of C09: double is preferred, wherever it stands)
        has_double = any(deref(b).kind == "double" for b in node.branches)
        return any(
            conforms(b, d, False, tuples, True) and float_out_of_range(b, d, tuples)
            for b in node.branches
            if not (has_double and deref(b).kind == "float")
        )
    return False


LOGICAL_PYTYPES = (datetime.date, datetime.time, datetime.datetime, uuid.UUID, decimal.Decimal)


def raw_under_logical(node, d, tuples=True):
    """True if, under some branch the datum conforms to, a node carrying a
    supported logical type receives a raw (non logical-type) value.  Reading
    such values back goes through conversions with restricted domains
    (uuid.UUID('x'), date.fromordinal(2**31) ...); the round-trip clauses are
    only judged on logical-type values."""
    node = deref(node)
    k = node.kind
    if node.logical and L.known(node):
        return not isinstance(d, LOGICAL_PYTYPES)
    if k == "array":
        return _seq(d, True) and any(raw_under_logical(node.items, x, tuples) for x in d)
    if k == "map":
        return isinstance(d, Mapping) and any(raw_under_logical(node.values, x, tuples) for x in d.values())
    if k == "record":
        if not isinstance(d, Mapping):
            return False
        for f in node.fields:
            if f.name in d:
                if raw_under_logical(f.type, d[f.name], tuples):
                    return True
            elif f.has_default:
                # an omitted field stands for its default, which is a raw JSON value
                try:
                    if raw_under_logical(f.type, default_datum(f.type, f.default), tuples):
                        return True
                except RecursionError:
                    return True
        return False
    if k == "union":
        if tuples and type(d) is tuple and len(d) == 2:
            return any(hint_name(b) == d[0] and raw_under_logical(b, d[1], tuples) for b in node.branches)
        return any(
            conforms(b, d, False, tuples, True) and raw_under_logical(b, d, tuples)
            for b in node.branches
        )
    return False


def choose_branch(node, d, tuples=True, loose=False):
    """The union branch rule of C09; returns (index, datum without hint)."""
    if tuples and type(d) is tuple and len(d) == 2:  # any other tuple is a plain sequence
        for i, b in enumerate(node.branches):
            if hint_name(b) == d[0]:
                return i, d[1]
        raise NoBranch("hint names no branch")
    first_float = None
    best_rec = None
    best_n = -1
    for i, b in enumerate(node.branches):
        bd = deref(b)
        if first_float is not None:
            if bd.kind == "double" :
                return i, d
            continue
        if not conforms(b, d, False, tuples, loose):
            continue
        if bd.kind == "record":
            n = len({f.name for f in bd.fields} & set(d))
            if n > best_n:
                best_rec, best_n = i, n
        elif bd.kind == "float":
            first_float = i
        else:
            return i, d
    if first_float is not None:
        return first_float, d
    if best_rec is not None:
        return best_rec, d
    raise NoBranch("no conforming branch")


def default_datum(ftype, default, depth=0):
    """A field's JSON default as the Python datum the specification means:
    bytes and fixed defaults are JSON strings of code points 0-255, i.e. the
    ISO-8859-1 bytes; everything else maps structurally."""
    node = deref(ftype)
    k = node.kind
    if depth > 30:
        return default
    if k in ("bytes", "fixed") and isinstance(default, str):
        try:
            return default.encode("iso-8859-1")
        except UnicodeEncodeError:
            return default
    if k == "array" and isinstance(default, list):
        return [default_datum(node.items, x, depth + 1) for x in default]
    if k == "map" and isinstance(default, dict):
        return {key: default_datum(node.values, x, depth + 1) for key, x in default.items()}
    if k == "record" and isinstance(default, dict):
        fields = {f.name: f for f in node.fields}
        return {key: (default_datum(fields[key].type, x, depth + 1) if key in fields else x) for key, x in default.items()}
    if k == "union" and isinstance(default, str):
        # the first branch a JSON string default can belong to
        for b in node.branches:
            bd = deref(b)
            if bd.kind == "string" or (bd.kind == "enum" and default in bd.symbols):
                return default
            if bd.kind == "bytes" or (bd.kind == "fixed" and len(default) == bd.size):
                try:
                    return default.encode("iso-8859-1")
                except UnicodeEncodeError:
                    return default
        return default
    if k == "union" and isinstance(default, (list, dict)):
        # the first branch of the fitting JSON kind
        for b in node.branches:
            bd = deref(b)
            if (isinstance(default, dict) and bd.kind in ("record", "map")) or (isinstance(default, list) and bd.kind == "array"):
                return default_datum(b, default, depth + 1)
    return default


def fill_defaults(node, d, tuples=True, depth=0):
    """The datum with every omitted defaulted field supplied explicitly (the
    default taken as the specification means it) - the neutralising edit of the
    'bytes default used verbatim' finding."""
    node = deref(node)
    k = node.kind
    if depth > 40:
        return d
    if k == "record" and isinstance(d, Mapping):
        out = {}
        for key in d:
            out[key] = d[key]
        for f in node.fields:
            if f.name in d:
                out[f.name] = fill_defaults(f.type, d[f.name], tuples, depth + 1)
            elif f.has_default:
                out[f.name] = default_datum(f.type, f.default)
        return out
    if k == "array" and _seq(d):
        return [fill_defaults(node.items, x, tuples, depth + 1) for x in d]
    if k == "map" and isinstance(d, Mapping):
        return {key: fill_defaults(node.values, x, tuples, depth + 1) for key, x in d.items()}
    if k == "union":
        try:
            i, inner = choose_branch(node, d, tuples, True)
        except NoBranch:
            return d
        filled = fill_defaults(node.branches[i], inner, tuples, depth + 1)
        if tuples and type(d) is tuple and len(d) == 2:
            return (d[0], filled)
        return filled
    return d


def has_bytes_default(node, seen=None):
    """Does some field default (transitively) contain a string meant for a bytes/fixed type?"""
    seen = seen if seen is not None else set()
    node_d = deref(node)
    if node_d.kind == "record":
        if node_d.name in seen:
            return False
        seen.add(node_d.name)
        for f in node_d.fields:
            if f.has_default and default_datum(f.type, f.default) != f.default:
                return True
            if has_bytes_default(f.type, seen):
                return True
    elif node_d.kind == "array":
        return has_bytes_default(node_d.items, seen)
    elif node_d.kind == "map":
        return has_bytes_default(node_d.values, seen)
    elif node_d.kind == "union":
        return any(has_bytes_default(b, seen) for b in node_d.branches)
    return False


def from_datum(node, d, tuples=True, loose=False):
    """Datum → value tree, choosing union branches by the C09 rule and
    substituting defaults for omitted record fields."""
    node = deref(node)
    if node.logical:
        d = L.prepare(node, d)
    k = node.kind
    if k == "null":
        return ("null", None, None, None)
    if k == "boolean":
        return (k, bool(d), None, None)
    if k in ("int", "long"):
        return (k, int(d), None, None)
    if k == "float":
        return (k, struct.unpack("<f", struct.pack("<f", float(d)))[0], None, None)
    if k == "double":
        return (k, float(d), None, None)
    if k == "bytes":
        return (k, bytes(d), None, None)
    if k == "string":
        return (k, d, None, None)
    if k == "fixed":
        return (k, bytes(d), None, None)
    if k == "enum":
        return (k, node.symbols.index(d), None, None)
    if k == "array":
        items = [from_datum(node.items, x, tuples, loose) for x in d]
        return (k, (items, [(len(items), False)] if items else []), None, None)
    if k == "map":
        items = [(key, from_datum(node.values, x, tuples, loose)) for key, x in d.items()]
        return (k, (items, [(len(items), False)] if items else []), None, None)
    if k == "record":
        kids = []
        for f in node.fields:
            if f.name in d:
                kids.append(from_datum(f.type, d[f.name], tuples, loose))
            elif f.has_default:
                kids.append(from_datum(f.type, default_datum(f.type, f.default), tuples, loose))
            else:
                kids.append(from_datum(f.type, None, tuples, loose))
        return (k, kids, None, None)
    if k == "union":
        i, inner = choose_branch(node, d, tuples, loose)
        return (k, (i, from_datum(node.branches[i], inner, tuples, loose)), None, None)
    raise ValueError(k)


def normalise(node, d, tree, tuples=True):
    """Expected read-back of datum ``d`` given the branches recorded in
    ``tree`` (the reference decoding of the bytes actually written).  Total:
    where the bytes select a branch the datum cannot be read under, the result
    contains a Mismatch marker (equal to nothing)."""
    try:
        return _normalise(node, d, tree, tuples)
    except (TypeError, KeyError, AttributeError, ValueError, IndexError, OverflowError) as e:
        return Mismatch("datum does not fit the branch the bytes select: %s" % type(e).__name__)


def _normalise(node, d, tree, tuples=True):
    node = deref(node)
    k = node.kind
    if k == "union":
        i, child = tree[1]
        if tuples and type(d) is tuple and len(d) == 2:
            d = d[1]
        return _normalise(node.branches[i], d, child, tuples)
    if node.logical and L.known(node):
        return L.read_back(node, tree[1])
    if k == "record":
        out = {}
        for f, c in zip(node.fields, tree[1]):
            if isinstance(d, Mapping) and f.name in d:
                out[f.name] = _normalise(f.type, d[f.name], c, tuples)
            elif f.has_default:
                out[f.name] = _normalise(f.type, default_datum(f.type, f.default), c, tuples)
            else:
                out[f.name] = _normalise(f.type, None, c, tuples)
        return out
    if k == "array":
        kids = tree[1][0]
        d = list(d)
        if len(d) != len(kids):
            return Mismatch("array length %d vs %d" % (len(d), len(kids)))
        return [_normalise(node.items, x, c, tuples) for x, c in zip(d, kids)]
    if k == "map":
        kids = tree[1][0]
        if len(d) != len(kids):
            return Mismatch("map length")
        return {key: _normalise(node.values, d[key], c, tuples) if key in d else Mismatch("key")
                for key, c in kids}
    if k == "float":
        try:
            return struct.unpack("<f", struct.pack("<f", float(d)))[0]
        except (OverflowError, TypeError, ValueError):
            return Mismatch("float")
    if k == "double":
        try:
            return float(d)
        except (TypeError, ValueError):
            return Mismatch("double")
    if k == "bytes":
        return bytes(d) if isinstance(d, (bytes, bytearray)) else Mismatch("bytes")
    return d


class Mismatch:
    """A value that is equal to nothing (structural mismatch marker)."""

    def __init__(self, why):
        self.why = why

    def __repr__(self):
        return "<Mismatch %s>" % self.why


def same(a, b):
    """Structural equality: exact types for bool/int/float, floats by bit
    pattern with all NaNs identified, dicts unordered, lists ordered."""
    if isinstance(a, Mismatch) or isinstance(b, Mismatch):
        return False
    if isinstance(a, bool) or isinstance(b, bool):
        return isinstance(a, bool) and isinstance(b, bool) and a == b
    if isinstance(a, float) or isinstance(b, float):
        if not (isinstance(a, float) and isinstance(b, float)):
            return False
        if math.isnan(a) or math.isnan(b):
            return math.isnan(a) and math.isnan(b)
        return struct.pack("<d", a) == struct.pack("<d", b)
    if isinstance(a, int) or isinstance(b, int):
        return isinstance(a, int) and isinstance(b, int) and a == b
    if isinstance(a, dict) or isinstance(b, dict):
        if not (isinstance(a, dict) and isinstance(b, dict)) or a.keys() != b.keys():
            return False
        return all(same(a[k], b[k]) for k in a)
    if isinstance(a, list) or isinstance(b, list):
        if not (isinstance(a, list) and isinstance(b, list)) or len(a) != len(b):
            return False
        return all(same(x, y) for x, y in zip(a, b))
    if isinstance(a, tuple) or isinstance(b, tuple):
        if not (isinstance(a, tuple) and isinstance(b, tuple)) or len(a) != len(b):
            return False
        return all(same(x, y) for x, y in zip(a, b))
    if isinstance(a, decimal.Decimal) and isinstance(b, decimal.Decimal):
        return (a.is_nan() and b.is_nan()) or a == b
    if type(a) is not type(b):
        if isinstance(a, (bytes, bytearray)) and isinstance(b, (bytes, bytearray)):
            return bytes(a) == bytes(b)
        return False
    return a == b

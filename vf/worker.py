"""Worker: runs one shard of one property inside the scratch import path."""
import faulthandler
import importlib
import json
import os
import sys


def main():
    pid, specf, outf = sys.argv[1:4]
    faulthandler.enable()
    sys.setrecursionlimit(3000)
    with open(specf) as f:
        spec = json.load(f)
    scratch = os.environ["VF_SCRATCH"]
    import fastavro

    where = os.path.dirname(os.path.abspath(fastavro.__file__))
    if not where.startswith(os.path.abspath(scratch)):
        print("fastavro imported from %s, not the scratch copy" % where, file=sys.stderr)
        sys.exit(3)
    import fastavro._read_py, fastavro.read

    if fastavro.read.reader is not fastavro._read_py.reader:
        print("compiled extension shadowing the Python sources", file=sys.stderr)
        sys.exit(3)
    mod = importlib.import_module("vf.props.%s" % pid.lower())
    cov = None
    if os.environ.get("VF_COVERAGE"):
        # development aid (tools/coverage.sh): line coverage of the scratch fastavro copy
        import coverage

        cov = coverage.Coverage(data_file=os.path.join(os.environ["VF_COVERAGE"], "cov-%s-%s" % (pid, spec.get("shard", 0))),
                                include=[os.path.join(scratch, "fastavro", "*")])
        cov.start()
    try:
        res = mod.run_shard(spec)
    finally:
        if cov is not None:
            cov.stop()
            cov.save()
    with open(outf + ".tmp", "w") as f:
        json.dump(res, f, default=str)
    os.replace(outf + ".tmp", outf)


if __name__ == "__main__":
    main()

"""Self-test of the reference model (no fastavro import)."""
import sys, struct
from .ref import schema as RS, binary as RB, conform as RC, logical as RL


def main():
    # varints
    for n, b in [(0, b"\x00"), (-1, b"\x01"), (1, b"\x02"), (-64, b"\x7f"), (64, b"\x80\x01"),
                 ((1 << 63) - 1, b"\xfe\xff\xff\xff\xff\xff\xff\xff\xff\x01"),
                 (-(1 << 63), b"\xff\xff\xff\xff\xff\xff\xff\xff\xff\x01")]:
        assert RB.enc_long(n) == b, (n, RB.enc_long(n))
        assert RB.dec_long(b, 0) == (n, len(b))
    js = {"type": "record", "name": "a.R", "fields": [
        {"name": "u", "type": ["null", "R", {"type": "array", "items": "long"}]},
        {"name": "m", "type": {"type": "map", "values": {"type": "enum", "name": "E", "symbols": ["X", "Y"]}}}]}
    node, env = RS.build(js)
    assert set(env.table) == {"a.R", "a.E"}
    d = {"u": {"u": [1, -2, 300], "m": {}}, "m": {"k": "Y"}}
    t = RC.from_datum(node, d)
    b = RB.encode(node, t)
    t2 = RB.decode_all(node, b)
    assert RB.strip_spans(t2) == RB.strip_spans(t)
    assert RC.same(RB.to_py(node, t2), d)
    # multi-block layout decodes to the same value
    b3 = RB.encode(node, t, lambda n, path: [(1, i % 2 == 0) for i in range(n)])
    assert RB.strip_spans(RB.decode_all(node, b3)) == RB.strip_spans(t)
    # civil day arithmetic
    import datetime
    for o in (1, 719163, 3652059, 500000):
        dt = datetime.date.fromordinal(o)
        assert RL.days_from_civil(dt.year, dt.month, dt.day) == o - 719163
        assert RL.civil_from_days(o - 719163) == (dt.year, dt.month, dt.day)
    print("reference model self-test ok")
    return 0


if __name__ == "__main__":
    sys.exit(main())

"""Stream monitors: wrapper file objects that log calls and trap foreign
attribute access."""
import io


class ReadOnlyStream:
    """Sequential input offering nothing but ``read``.  Counts bytes handed
    out and records any other attribute the code under test asks for."""

    def __init__(self, data):
        self._data = bytes(data)
        self.pos = 0
        self.calls = 0
        self.foreign = []

    def read(self, n=-1):
        self.calls += 1
        if n is None or n < 0:
            n = len(self._data) - self.pos
        out = self._data[self.pos : self.pos + n]
        self.pos += len(out)
        return out

    def __getattr__(self, name):
        if name.startswith("__"):
            raise AttributeError(name)
        self.foreign.append(name)
        raise AttributeError("monitor: input stream has no %r" % name)


class TellStream(ReadOnlyStream):
    """read + tell (what block_reader documents it needs)."""

    def tell(self):
        return self.pos


class WriteOnlyStream:
    """Non-seekable output: write, flush, seekable() -> False; nothing else."""

    def __init__(self):
        self.chunks = []
        self.log = []
        self.foreign = []
        self.flushes = 0

    def write(self, b):
        self.log.append(("write", len(b)))
        self.chunks.append(bytes(b))
        return len(b)

    def flush(self):
        self.flushes += 1
        self.log.append(("flush",))

    def seekable(self):
        self.log.append(("seekable",))
        return False

    def getvalue(self):
        return b"".join(self.chunks)

    def __getattr__(self, name):
        if name.startswith("__"):
            raise AttributeError(name)
        self.foreign.append(name)
        raise AttributeError("monitor: output stream has no %r" % name)


class LoggingBytesIO(io.BytesIO):
    """Seekable in-memory stream that logs the methods used."""

    def __init__(self, *a):
        super().__init__(*a)
        self.log = []

    def write(self, b):
        self.log.append(("write", self.tell(), len(b)))
        return super().write(b)

    def seek(self, *a):
        self.log.append(("seek",) + a)
        return super().seek(*a)

    def truncate(self, *a):
        self.log.append(("truncate",) + a)
        return super().truncate(*a)


class FlushedView(io.BytesIO):
    """Seekable in-memory stream that behaves like a buffered file read through a second
    handle: ``flushed`` is what has reached the far side, i.e. the content as of the last
    ``flush()`` call."""

    def __init__(self, *a):
        super().__init__(*a)
        self.flushed = b""
        self.flush_calls = 0

    def flush(self):
        super().flush()
        self.flush_calls += 1
        self.flushed = self.getvalue()

"""Deterministic thread scheduler on sys.monitoring LINE events (C18).

Worker threads run real fastavro operations.  A LINE callback, active for code
objects of the scratch fastavro package only, is the single place where a
worker may be descheduled: it parks the calling thread on its own semaphore and
releases the thread the schedule names.  Exactly one worker runs at any time, so
the interleaving *is* the schedule and can be replayed.  Every interleaving
produced is one the interpreter can produce (a thread switch at a statement
start is a special case of a switch at a bytecode boundary)."""
import sys
import threading

TOOL = 3
_mon = sys.monitoring
_state = {"sched": None, "prefix": None, "installed": False}


def _cb(code, line):
    s = _state["sched"]
    if not code.co_filename.startswith(_state["prefix"]):
        return _mon.DISABLE
    if s is None:
        return None
    tid = s.ident2tid.get(threading.get_ident())
    if tid is None:
        return None
    s.on_line(tid, code, line)
    return None


def install(fastavro_dir):
    if _state["installed"]:
        return
    _state["prefix"] = fastavro_dir
    _mon.use_tool_id(TOOL, "vf-sched")
    _mon.register_callback(TOOL, _mon.events.LINE, _cb)
    _mon.set_events(TOOL, _mon.events.LINE)
    _state["installed"] = True


class Deadlock(Exception):
    pass


class Run:
    """One scheduled execution of several operations in as many threads."""

    def __init__(self, fns, policy, record_lines=False):
        self.fns = fns
        self.n = len(fns)
        self.policy = policy  # policy(run, tid, event_no) -> thread to switch to, or None
        self.go = [threading.Semaphore(0) for _ in fns]
        self.done = [False] * self.n
        self.started = [False] * self.n
        self.events = [0] * self.n
        self.results = [None] * self.n
        self.ident2tid = {}
        self.trace = []  # run-length encoded [tid, count]
        self.lines = [[] for _ in fns] if record_lines else None
        self.switches = 0

    def on_line(self, tid, code, line):
        self.events[tid] += 1
        if self.trace and self.trace[-1][0] == tid:
            self.trace[-1][1] += 1
        else:
            self.trace.append([tid, 1])
        if self.lines is not None:
            self.lines[tid].append((code.co_filename.rsplit("/", 1)[-1], line))
        nxt = self.policy(self, tid, self.events[tid])
        if nxt is not None and nxt != tid and not self.done[nxt]:
            self.switches += 1
            self.go[nxt].release()
            self.go[tid].acquire()

    def _worker(self, tid):
        self.ident2tid[threading.get_ident()] = tid
        self.go[tid].acquire()
        self.started[tid] = True
        try:
            try:
                self.results[tid] = ("ok", self.fns[tid]())
            except Exception as e:  # noqa: the observation of a failing operation is its exception class
                self.results[tid] = ("exc", type(e).__name__)
        finally:
            self.done[tid] = True
            for j in range(self.n):
                if not self.done[j]:
                    self.go[j].release()
                    break

    def execute(self, first=0, timeout=60):
        threads = [threading.Thread(target=self._worker, args=(i,), daemon=True) for i in range(self.n)]
        _state["sched"] = self
        try:
            for t in threads:
                t.start()
            self.go[first].release()
            for t in threads:
                t.join(timeout)
                if t.is_alive():
                    raise Deadlock("scheduled run did not finish within %ds" % timeout)
        finally:
            _state["sched"] = None
        return self.results

    def signature(self):
        return tuple((t, c) for t, c in self.trace)


def preempt_once(at_thread, at_event, to_thread):
    """A runs to its `at_event`-th line event, then `to_thread` runs (to completion
    unless preempted by the end of A's turn), then the rest."""
    def policy(run, tid, n):
        if tid == at_thread and n == at_event:
            return to_thread
        return None
    return policy


def preempt_points(points):
    """points: {(tid, event_no): next_tid}"""
    def policy(run, tid, n):
        return points.get((tid, n))
    return policy


def count_events(fn):
    """Line events of one operation run alone under the scheduler."""
    r = Run([fn], lambda run, tid, n: None, record_lines=True)
    res = r.execute()
    return r.events[0], res[0], r.lines[0]

"""Module-state monitor (evidence only, never a verdict): module-level mutable
objects and mutable default arguments of the scratch fastavro package."""
import decimal
import sys
import types


def _fp(x, depth=0):
    if depth > 4:
        return "deep"
    if isinstance(x, dict):
        return ("D", len(x), tuple(sorted((repr(k)[:40], _fp(v, depth + 1)) for k, v in list(x.items())[:50])))
    if isinstance(x, (list, set, frozenset, tuple)):
        return ("L", len(x), tuple(_fp(v, depth + 1) for v in list(x)[:30]) if isinstance(x, (list, tuple)) else len(x))
    if isinstance(x, decimal.Context):
        return ("ctx", x.prec, x.rounding)
    if callable(x):
        return ("fn", getattr(x, "__qualname__", repr(type(x))))
    return repr(x)[:60]


def watch_list():
    """name -> object for every module-level dict/list/set/Context and every
    mutable default argument of the functions and methods of fastavro.*"""
    out = {}
    for mname, mod in list(sys.modules.items()):
        if not (mname == "fastavro" or mname.startswith("fastavro.")) or mod is None:
            continue
        for name, obj in list(vars(mod).items()):
            if name.startswith("__"):
                continue
            if isinstance(obj, (dict, list, set, decimal.Context)):
                out["%s.%s" % (mname, name)] = obj
            fns = []
            if isinstance(obj, types.FunctionType) and obj.__module__ == mname:
                fns.append((name, obj))
            elif isinstance(obj, type) and obj.__module__ == mname:
                for an, av in vars(obj).items():
                    if isinstance(av, types.FunctionType):
                        fns.append(("%s.%s" % (name, an), av))
                    elif isinstance(av, (dict, list, set)) and not an.startswith("__"):
                        out["%s.%s.%s" % (mname, name, an)] = av
            for fname, fn in fns:
                for i, d in enumerate(fn.__defaults__ or ()):
                    if isinstance(d, (dict, list, set)):
                        out["%s.%s.<default %d>" % (mname, fname, i)] = d
                for k, d in (fn.__kwdefaults__ or {}).items():
                    if isinstance(d, (dict, list, set)):
                        out["%s.%s.<default %s>" % (mname, fname, k)] = d
    return out


def snapshot():
    return {k: _fp(v) for k, v in watch_list().items()}


def changed(before, after):
    # objects of modules imported later are not "changes"
    return sorted(k for k in after if k in before and before[k] != after[k])

"""Shard-side bookkeeping shared by every property module."""
import base64
import hashlib
import json
import os
import pickle
import random
import sys
import time
import traceback
from collections import Counter


def h64(*parts):
    m = hashlib.blake2b(digest_size=8)
    for p in parts:
        m.update(repr(p).encode("utf-8", "backslashreplace"))
        m.update(b"\x00")
    return m.hexdigest()


def rng_for(*parts):
    return random.Random(int(h64(*parts), 16))


def printable(x, limit=600):
    s = repr(x)
    if len(s) > limit:
        s = s[: limit - 20] + "...<%d chars>" % len(s)
    return s


def schema_shape(js):
    """Name-insensitive structural signature of a JSON schema."""
    if isinstance(js, str):
        return js if js in (
            "null", "boolean", "int", "long", "float", "double", "bytes", "string"
        ) else "@ref"
    if isinstance(js, list):
        return ["U"] + [schema_shape(b) for b in js]
    t = js.get("type")
    if t == "record":
        return ["R", "ns" in js or "." in js.get("name", "")] + [
            (schema_shape(f["type"]), "default" in f) for f in js.get("fields", [])
        ]
    if t == "enum":
        return ["E", len(js["symbols"]), "default" in js]
    if t == "fixed":
        return ["F", js["size"], js.get("logicalType")]
    if t == "array":
        return ["A", schema_shape(js["items"])]
    if t == "map":
        return ["M", schema_shape(js["values"])]
    return ["P", t, js.get("logicalType")]


def datum_shape(d, depth=0):
    """Value-class signature of a datum (not the values themselves)."""
    if depth > 30:
        return "<deep>"
    if d is None or isinstance(d, bool):
        return repr(d)
    if isinstance(d, int):
        n = abs(d)
        return "i%d%s" % (n.bit_length(), "-" if d < 0 else "")
    if isinstance(d, float):
        if d != d:
            return "fnan"
        if d in (float("inf"), float("-inf")):
            return "finf"
        return "f0" if d == 0 else "f"
    if isinstance(d, str):
        return "s%d%s" % (min(len(d), 70), "u" if not d.isascii() else "")
    if isinstance(d, (bytes, bytearray)):
        return "b%d" % min(len(d), 70)
    if isinstance(d, tuple) and len(d) == 2 and isinstance(d[0], str):
        return ("T", d[0], datum_shape(d[1], depth + 1))
    if hasattr(d, "keys"):
        return ("D", type(d).__name__, tuple(sorted(((str(k), datum_shape(d[k], depth + 1)) for k in list(d.keys())[:8]), key=repr)), min(len(d), 70))
    if isinstance(d, (list, tuple)) or hasattr(d, "__len__") and hasattr(d, "__iter__"):
        lst = list(d)
        return ("L", type(d).__name__, tuple(datum_shape(x, depth + 1) for x in lst[:4]), min(len(lst), 70))
    return type(d).__name__


class Violation(Exception):
    def __init__(self, kind, detail, **extra):
        super().__init__("%s: %s" % (kind, detail))
        self.kind = kind
        self.detail = detail
        self.extra = extra


class Shard:
    """Accumulates what one worker observed."""

    def __init__(self, prop, spec):
        self.prop = prop
        self.spec = spec
        self.evals = 0
        self.hashes = set()
        self.counters = Counter()
        self.features = Counter()
        self.violations = []
        self.known = {}
        self.samples = []
        self.errors = []
        self.t0 = time.time()
        self.deadline = self.t0 + spec.get("time_limit", 1e9)

    # -------------------------------------------------------------------
    def out_of_time(self):
        # a tree on which calls keep hanging is not explored further (each costs the full watchdog)
        return time.time() > self.deadline or HANGS[0] >= MAX_HANGS

    def case(self, shape_hash=None, nontrivial=True):
        self.evals += 1
        if shape_hash is not None and nontrivial:
            self.hashes.add(shape_hash)

    def count(self, name, n=1):
        self.counters[name] += n

    def feat(self, names):
        for n in names:
            self.features[n] += 1

    def sample(self, obj, every=1, cap=4):
        if len(self.samples) < cap:
            self.samples.append(obj)

    def violation(self, kind, detail, case, known_key=None, what=None):
        """Record a violation (or a known finding when known_key is set)."""
        if known_key:
            ent = self.known.setdefault(known_key, {"count": 0, "what": what or detail, "witness": printable(case, 400)})
            ent["count"] += 1
            return
        if len(self.violations) >= 25:
            self.counters["violations_dropped"] += 1
            return
        try:
            blob = base64.b64encode(pickle.dumps(case, protocol=4)).decode()
        except Exception:
            blob = None
        self.violations.append(
            {
                "kind": kind,
                "detail": detail[:2000],
                "case": printable(case, 3000),
                "pickle": blob,
                "spec": self.spec,
            }
        )

    def run_case(self, fn, *a, **kw):
        """Run one case of oracle code; an exception escaping from the oracle
        itself is recorded (the run becomes inconclusive unless a violation is
        found elsewhere) instead of killing the shard."""
        try:
            return fn(*a, **kw)
        except Exception:
            self.counters["oracle_errors"] += 1
            if len(self.errors) < 3:
                self.errors.append(traceback.format_exc()[-1800:])
            return None

    def absorb(self, other):
        """Merge what a temporary shard observed."""
        self.evals += other.evals
        self.hashes |= other.hashes
        self.counters.update(other.counters)
        self.features.update(other.features)
        self.errors.extend(other.errors)
        for s in other.samples:
            self.sample(s)

    def with_finding(self, key, applies, run, neutralised_run):
        """Run one case; if it violates and the known mechanism `key` applies,
        re-run the neutralised case: violations are attributed to the finding
        only when the neutralised case is clean."""
        if not applies:
            return run(self)
        from . import known as _known
        if key not in _known._open_keys(self.prop):
            return run(self)  # not (or no longer) a listed finding: nothing to attribute anything to
        tmp = Shard(self.prop, self.spec)
        r = run(tmp)
        if not tmp.violations:
            self.absorb(tmp)
            return r
        tmp2 = Shard(self.prop, self.spec)
        try:
            neutralised_run(tmp2)
            clean = not tmp2.violations and not tmp2.errors
        except Exception:
            clean = False
        tmp.violations, vs = [], tmp.violations
        self.absorb(tmp)
        import base64, pickle
        for v in vs:
            try:
                case = pickle.loads(base64.b64decode(v["pickle"])) if v["pickle"] else v["case"]
            except Exception:
                case = v["case"]
            self.violation(v["kind"], v["detail"], case, known_key=key if clean else None, what="%s: %s" % (v["kind"], v["detail"][:150]))
        return None

    def result(self):
        if HANGS[0] >= MAX_HANGS:
            self.counters["stopped_after_repeated_hangs"] += 1
            if not self.violations and not self.known:
                self.errors.append("shard stopped early: the per-call watchdog fired %d times without any oracle flagging a violation" % HANGS[0])
        return {
            "errors": self.errors,
            "evals": self.evals,
            "hashes": sorted(self.hashes),
            "counters": dict(self.counters),
            "features": dict(self.features),
            "violations": self.violations,
            "known": self.known,
            "samples": self.samples,
            "wall": time.time() - self.t0,
        }


class HangError(Exception):
    """A guarded call did not finish within the (very generous) wall-clock
    watchdog; reported as an exception of the call."""


def guard(fn, *a, **kw):
    """Call fn; return ('ok', value) or ('exc', exception).  A wall-clock
    watchdog of GUARD_SECONDS (>= 1000x the slowest legitimate call) turns a
    call that never returns into ('exc', HangError)."""
    st, val = guard_timed(GUARD_SECONDS, fn, *a, **kw)
    if st == "hang":
        HANGS[0] += 1
        return "exc", HangError("call did not finish within %ds" % GUARD_SECONDS)
    return st, val


GUARD_SECONDS = 30
HANGS = [0]  # calls cut by the watchdog in this worker; after a few the shard stops early
MAX_HANGS = 4


class Hang(BaseException):
    """Raised by the wall-clock watchdog inside a guarded call."""


def _on_alarm(signum, frame):
    raise Hang()


def guard_timed(seconds, fn, *a, **kw):
    """Like guard, with a wall-clock watchdog: returns ('hang', None) when the
    call does not finish in time (inconclusive for that call, never a verdict)."""
    import signal

    old = signal.signal(signal.SIGALRM, _on_alarm)
    signal.setitimer(signal.ITIMER_REAL, seconds)
    try:
        try:
            return "ok", fn(*a, **kw)
        finally:
            signal.setitimer(signal.ITIMER_REAL, 0)
            signal.signal(signal.SIGALRM, old)
    except Hang:
        return "hang", None
    except Exception as e:
        return "exc", e


def exc_name(e):
    return type(e).__name__ + ": " + str(e)[:200]

#!/bin/sh
# Development aid: line coverage of fastavro under the quick tier of the given checks (default all).
# usage: tools/coverage.sh [C01 C02 ...]
cd "$(dirname "$0")/.."
out=$(mktemp -d /tmp/vfcov-XXXX)
checks=${@:-C01 C02 C03 C04 C05 C06 C07 C08 C09 C10 C11 C12 C13 C14 C15 C16 C17 C19 C20}
for c in $checks; do VF_COVERAGE=$out VERIF_JOBS=16 ./check $c --tier quick > /dev/null 2>&1; echo "$c done"; done
cd $out && /venv/bin/python - <<'PY'
import coverage, glob, os, re, collections
cov = coverage.Coverage(data_file=".combined")
cov.combine(glob.glob("cov-*"), keep=True)
cov.save()
data = cov.get_data()
# scratch dirs differ per run: merge by relative file name
lines = collections.defaultdict(set)
for f in data.measured_files():
    rel = f[f.index("/fastavro/") + 1:]
    lines[rel] |= set(data.lines(f) or [])
import ast
for rel in sorted(lines):
    src = open(os.path.join("/repo", rel)).read()
    # executable statements
    stm = set()
    for node in ast.walk(ast.parse(src)):
        if isinstance(node, ast.stmt) and not isinstance(node, (ast.FunctionDef, ast.ClassDef, ast.Import, ast.ImportFrom)):
            stm.add(node.lineno)
    miss = sorted(stm - lines[rel])
    print("%-40s %4d/%4d statements executed; missing: %s" % (rel, len(stm & lines[rel]), len(stm), _fmt(miss) if (_fmt := lambda m: ",".join(map(str, m[:60]))) else ""))
PY
rm -rf $out

#!/usr/bin/env python3
"""Run checks against a seeded change without touching /repo: the patch is
applied in a scratch worktree of /repo HEAD and the checks run with
VERIF_REPO=<worktree>.  usage: seedrun.py <seed id> [check ids...] [--tier T]
Records the outcome in seeded/<id>/meta.json under 'detection'."""
import json, os, subprocess, sys, tempfile, time

def main():
    args = [a for a in sys.argv[1:] if not a.startswith("--")]
    tier = "quick"
    for a in sys.argv[1:]:
        if a.startswith("--tier="):
            tier = a.split("=", 1)[1]
    sid = args[0]
    sdir = os.path.join("/verif/seeded", sid)
    meta = json.load(open(os.path.join(sdir, "meta.json")))
    checks = args[1:] or [meta["property"]]
    wt = tempfile.mkdtemp(prefix="seedrun-"); os.rmdir(wt)
    subprocess.run(["git", "-C", "/repo", "worktree", "add", "-q", "--detach", wt, "HEAD"], check=True)
    try:
        subprocess.run(["git", "-C", wt, "apply", os.path.join(sdir, "patch.diff")], check=True)
        env = dict(os.environ, VERIF_REPO=wt)
        for c in checks:
            t0 = time.time()
            p = subprocess.run(["/verif/check", c, "--tier", tier], cwd="/verif", env=env, stdout=subprocess.PIPE, stderr=subprocess.STDOUT)
            out = p.stdout.decode("utf-8", "replace")
            viol = [l for l in out.splitlines() if l.startswith("VIOLATION")]
            kinds = sorted({l.strip().split(":")[0] for l in out.splitlines() if l.startswith("  ") and ":" in l and not l.startswith("  case") and not l.startswith("  counters") and not l.startswith("  harness")})
            res = {"check": c, "tier": tier, "exit": p.returncode, "violations": len(viol), "kinds": kinds[:6], "wall_s": round(time.time() - t0, 1),
                   "repo_head": subprocess.run(["git", "-C", "/repo", "rev-parse", "--short", "HEAD"], stdout=subprocess.PIPE).stdout.decode().strip()}
            print(sid, json.dumps(res))
            det = meta.setdefault("detection", {})
            det["%s/%s" % (c, tier)] = res
        json.dump(meta, open(os.path.join(sdir, "meta.json"), "w"), indent=1)
    finally:
        subprocess.run(["git", "-C", "/repo", "worktree", "remove", "--force", wt])
        # evidence files were overwritten by runs against the seeded tree: restore them
        subprocess.run(["git", "-C", "/verif", "checkout", "--", "evidence"], stderr=subprocess.DEVNULL)

if __name__ == "__main__":
    main()

#!/usr/bin/env python3
"""Regenerates /verif/MANIFEST.json from the table below (kept in one place
so the manifest stays valid while checks are added)."""
import json
import os
import subprocess

HERE = os.path.dirname(os.path.dirname(os.path.abspath(__file__)))

TRUST = ("Trusted base: CPython 3.12 + stdlib (struct, zlib, bz2, lzma, hashlib, json, decimal, datetime), "
         "the reference model in vf/ref (never imports fastavro; self-checked against the Java-written fixtures "
         "and the specification's vectors) and the generators in vf/gen. Subject is the pure-Python implementation "
         "copied from /repo's working tree at the start of each run.")

CHECKS = {
    "C01": dict(
        cat="exploration", tech="runtime monitoring: reference-model round-trip oracle + byte-counting stream monitor",
        text="Runs the real schemaless_writer/schemaless_reader on a deterministic boundary stratum plus tens of thousands "
             "(thorough: >1M) generated (schema, datum) pairs, raw and pre-parsed, and compares the value read back with the "
             "datum normalised by an independent model under the branches the bytes select; a read-only counting stream "
             "decides 'consumes exactly the bytes produced' alone and in back-to-back streams. Held-on-observed, not a proof.",
        ref="DESIGN.md §4 C01"),
    "C02": dict(
        cat="exploration", tech="runtime monitoring: independent decoder + canonical re-encoder compared byte for byte",
        text="Same workload as C01; the bytes left by the writer are decoded by an independent lenient decoder, re-encoded "
             "canonically and compared byte for byte; every selected union branch is checked with an independent "
             "conformance predicate.",
        ref="DESIGN.md §4 C02"),
    "C03": dict(
        cat="exploration", tech="runtime monitoring: independent layout encoder + enumerated faults (bad indices, every proper prefix)",
        text="Value trees are re-encoded by an independent encoder under random block partitions in positive and "
             "negative-count form and fed to the real schemaless_reader directly and through a reader schema that drops "
             "the field (skip path, bare and nested under array/map/union). Per case every union/enum index position is "
             "overwritten with 7 out-of-range values and every proper prefix (<=400 bytes) is tried; the oracle is 'same "
             "value as the independent decoder' resp. 'an exception is raised'. Sampled schemas/values, enumerated faults per case.",
        ref="DESIGN.md §4 C03"),
    "C04": dict(
        cat="exploration", tech="runtime monitoring: stream monitors (read-only / write-only wrappers) + reference-model oracle over configurations",
        text="Real writer()/reader() over generated schemas x record lists x codec x sync_interval x level x metadata x "
             "marker x raw/parsed x stream kinds; wrapper streams log every call and trap every foreign attribute; records, "
             "canonical schema, codec and metadata read back are compared with the model; grouping-independence is checked "
             "across sync_interval values of the same case.",
        ref="DESIGN.md §4 C04"),
    "C05": dict(
        cat="exploration", tech="runtime monitoring: differential check against an independent container parser/writer; tiling arithmetic on block_reader output",
        text="Both directions: fastavro-written files are parsed by an independent container parser (layout grammar, "
             "codec through stdlib, exact record counts) and independently written layout-valid files (empty blocks, "
             "chunked header map, absent codec key) are read by reader and block_reader whose blocks must tile the file; the "
             "Java fixtures are read by both sides; is_avro is compared with the magic predicate on byte strings and paths.",
        ref="DESIGN.md §4 C05"),
    "C06": dict(
        cat="fault_enumeration", tech="runtime monitoring with fault injection: every cut offset and every sync-marker alteration of each corpus file, prefix oracle",
        text="For each file of a sampled corpus (all codecs, 0-12 blocks, >=64-record blocks, zero-byte records, empty blocks; "
             "written by fastavro and by the independent writer) the fault space is enumerated completely: the file cut at every "
             "byte offset and read with reader/block_reader, each block's trailing marker altered 18 ways, every proper prefix of "
             "a schemaless encoding. Oracle: yielded records are a structural prefix of the written ones; normal end iff the cut "
             "is a block boundary known from the independent parser; alterations raise.",
        ref="DESIGN.md §4 C06"),
    "C07": dict(
        cat="exploration", tech="runtime monitoring: operation histories checked against an executable sequential model (durable+pending) + icontract class invariant on Writer",
        text="Thousands of short random histories over {new, write, failing write at 7 positions, flush, write_block from donor "
             "files, abandon, reopen-append with foreign schema/codec/metadata/marker, writer() in append mode}; unique ids make "
             "loss/duplication/reorder distinguishable; after every flush the stream is parsed by the independent parser and by "
             "fastavro.reader and compared with the model; header bytes must stay frozen. The icontract invariant is auxiliary "
             "(pinpoints the first corrupting step), the verdict rests on the read-back.",
        ref="DESIGN.md §4 C07"),
    "C10": dict(
        cat="exploration", tech="runtime monitoring: independent conformance predicate as oracle over conforming and single-mutation data; writer-agreement observed through read-back",
        text="validate / validate_many are called on generated data (conforming, hinted, and after one near-miss mutation of 8 kinds "
             "at a random depth) under all strict x disable_tuple_notation x raise_errors combinations and compared with an independent "
             "implementation of the documented Python mapping; exception class checked (ValidationError exactly in the False cases). "
             "Agreement with writers is observed: accepted data are written and must round-trip; rejected data go to "
             "Writer(validator=True)/json_writer(validator=True), which must raise and leave a stream holding exactly the records "
             "accepted before (independent container parser).",
        ref="DESIGN.md §4 C10"),
    "C09": dict(
        cat="exploration", tech="runtime monitoring: branch indices observed in the written bytes vs an independent implementation of the stated rule; cross-process re-encoding; read/write closure",
        text="The union indices found in the bytes (independent decoder) are compared with the statement's rule computed by an "
             "independent conformance predicate on union-heavy schemas, targeted record-tie and float/double families, hinted "
             "and wrongly hinted data, with and without tuple notation; a sample of cases is re-encoded in fresh interpreters "
             "under other PYTHONHASHSEED values after unrelated calls; reads with return_named_type are written back and must "
             "reproduce the bytes; tags under all four reader options must name the selected branch.",
        ref="DESIGN.md §4 C09"),
    "C16": dict(
        cat="exploration", tech="runtime monitoring: closed-form reference conversions as oracle over (thorough: exhaustively enumerated) value domains; stored integers/bytes read with an independent parser",
        text="Logical-type values go through the real container writer/reader and schemaless functions; the stored varints and "
             "bytes are extracted by the independent container parser and compared with closed-form integer arithmetic "
             "(Hinnant day count, integer microsecond arithmetic, two's complement of value*10^scale); read-backs must equal the "
             "input truncated to the type's precision, in UTC. Thorough enumerates all 3,652,059 dates and all 86,400,000 "
             "time-millis values; decimals use a three-valued oracle (must raise / must succeed / either).",
        ref="DESIGN.md §4 C16"),
    "C11": dict(
        cat="exploration", tech="runtime monitoring: independent full-name resolver as oracle on generated valid schemas; single ill-forming mutations must raise the two named exception types",
        text="parse_schema is run on generated valid schemas (every namespace spelling, references, recursion, defaults) and its "
             "output is walked in parallel with the raw schema: names, reference strings and the named-schema dictionary must equal "
             "what an independent implementation of the specification's namespace rules computes. Each schema is then hit with "
             "single mutations of the 7 ill-formedness kinds of the statement at a random position; the call must raise "
             "SchemaParseException or UnknownType (class identity).",
        ref="DESIGN.md §4 C11"),
    "C13": dict(
        cat="exploration", tech="runtime monitoring: independent canonicaliser (anchored on the Apache vectors) compared as text; metamorphic cosmetic rewrites; cross-decoding",
        text="to_parsing_canonical_form output is compared as text with an independent implementation of the specification's "
             "transformation (itself checked against 13 Apache vectors), re-applied to its own output (fixed point), used as a "
             "schema to write/read the same data (identical bytes, same values), and recomputed after random cosmetic rewrites of "
             "10 kinds which must not change it.",
        ref="DESIGN.md §4 C13"),
    "C14": dict(
        cat="exploration", tech="runtime monitoring: table-free bit-serial Rabin fingerprint and direct hashlib digests as oracles over random texts",
        text="fingerprint() is compared on tens of thousands (thorough: millions) of Unicode texts, canonical forms and the Apache "
             "fingerprint vectors with a bit-serial CRC-64-AVRO (no table) and with hashlib for every advertised fixed-length "
             "algorithm and both Java spellings; about a hundred unknown-name variants must raise ValueError; the evidence reports "
             "that all 256 table indices were driven.",
        ref="DESIGN.md §4 C14"),
    "C08": dict(
        cat="exploration", tech="runtime monitoring: independent datum-driven implementation of the resolution rules as oracle over evolved reader schemas",
        text="Reader schemas are derived from generated writer schemas by 0-4 evolution steps of 19 kinds at random depths; data are "
             "encoded by the independent encoder and read through schemaless_reader and the container reader with the reader schema. "
             "The oracle implements the rules exactly as C08 words them (same-type branch first, promotion otherwise, aliases, "
             "defaults, enum defaults) and yields either a value or NoResolution => SchemaResolutionError by class identity; cases "
             "the statement leaves open are skipped and counted.",
        ref="DESIGN.md §4 C08"),
    "C15": dict(
        cat="exploration", tech="runtime monitoring: independent JSON encoder and binary-codec agreement as oracles; known findings attributed by counterfactual re-test of the mechanism",
        text="json_writer text is parsed line by line and compared, schema-directed and with numbers by value, with an independent "
             "implementation of the specification's JSON encoding of the value tree (branches learned from the binary encoding of "
             "the same datum); json_reader output must equal the records the binary codec returns; absent defaulted keys must yield "
             "defaults in every record of multi-record texts; write_union_type=False must equal the plain projection. Three open "
             "defects of the JSON codec are reported as KNOWN-FINDING only when their trigger is present and the neutralised case passes.",
        ref="DESIGN.md §4 C15"),
    "C12": dict(
        cat="exploration", tech="runtime monitoring: metamorphic comparison of every public operation across raw / parsed / piecewise-parsed forms; fresh-interpreter re-reads",
        text="For every generated schema and every subset (all 2^k, k<=4) of its separable named types the three forms are built "
             "and every public operation (binary, container, JSON, validate, canonical form, fingerprint, seeded generation) is "
             "observed under each; the observations (bytes, values, text, exception class) must coincide; parse_schema(parsed) "
             "must be the same object; a sample of container files is re-read in a fresh interpreter from the bytes alone. One open "
             "finding (piecewise non-record top level) is attributed only by counterfactual re-test.",
        ref="DESIGN.md §4 C12"),
    "C19": dict(
        cat="exploration", tech="runtime monitoring: generated on-disk schema repositories; model that inlines every type at first use as oracle; fault injection by removing each file",
        text="Random acyclic repositories of 2-9 per-type .avsc files (several namespaces, qualified and relative references from "
             "fields, array items, map values and union branches, diamonds, repeated use) are written to a scratch directory and "
             "loaded with load_schema and load_schema_ordered (two dependency orders); the canonical form must equal the independent "
             "canonical form of the model with every type inlined at first use and the encodings of generated data must coincide; "
             "each file is removed in turn and the error must name the missing type.",
        ref="DESIGN.md §4 C19"),
    "C20": dict(
        cat="exploration", tech="runtime monitoring: count and independent conformance oracle over generated data under seeded states of the global random source",
        text="generate_many / generate_one run on generated schemas (logical types, references, recursion, error records; raw and "
             "parsed) for n in {0,1,2,7,50} under several random.seed states; the count must be exact and every value must satisfy "
             "the independent conformance predicate, validate(), the binary and container writers, and be readable. Two open "
             "findings (unbounded recursion; raw values routed into a narrower logical branch) are attributed by counterfactual re-test.",
        ref="DESIGN.md §4 C20"),
    "C17": dict(
        cat="exploration", tech="runtime monitoring: call histories in one process vs the same call made first in a pristine forked interpreter; argument snapshots before/after",
        text="Thousands of histories of 8-20 public calls share parsed-schema objects and named-schema dictionaries over a pool of "
             "schemas that reuse full names with different definitions, include calls that fail midway and calls whose schema has a "
             "reference only another schema defines; before each call its arguments are pickled and the same call is executed in a "
             "fork of a zygote process that imported fastavro and never called it; the two observations must be equal, and deep "
             "fingerprints of schema/data arguments must be unchanged by the call.",
        ref="DESIGN.md §4 C17"),
    "C18": dict(
        cat="exploration", tech="runtime monitoring: deterministic thread scheduler on sys.monitoring LINE events; all one-preemption schedules per operation pair enumerated",
        text="Real operations run in worker threads on distinct streams sharing parsed schemas; a sys.monitoring LINE callback on the "
             "fastavro code is the only point where a thread can be descheduled, so each run realises exactly the schedule it was "
             "given and can be replayed. For every explored ordered pair of operations all one-preemption schedules are executed "
             "(exhaustive within that bound), plus random 2-3-preemption and (thorough) 3-thread schedules; each thread's "
             "observation must equal its sequential observation. Evidence reports schedules executed and distinct interleavings.",
        ref="DESIGN.md §4 C18"),
}

NOT_YET = "check not built yet in this session (see DESIGN.md §8 build order)"


def main():
    props = [json.loads(l)["id"] for l in open(os.path.join(HERE, "properties.jsonl"))]
    hooks_commits = []
    checks = []
    for pid in props:
        c = CHECKS.get(pid)
        if not c:
            continue
        checks.append({
            "property_id": pid,
            "quick_cmd": "./check %s --tier quick" % pid,
            "thorough_cmd": "./check %s --tier thorough" % pid,
            "evidence_file": "evidence/%s.json" % pid,
            "replay_cmd_template": "./check %s --replay {path}" % pid,
            "engine": "vf",
            "level_claimed": {"category": c["cat"], "text": c["text"], "design_ref": c["ref"]},
            "level_note": c.get("note", TRUST),
            "technique": c["tech"],
        })
    na = [{"property_id": p, "reason": NOT_YET} for p in props if p not in CHECKS]
    man = {
        "version": 1,
        "setup_cmd": "./setup.sh",
        "hooks": {
            "guard": "FASTAVRO_VERIF",
            "enable": "no source hooks are needed: observation is done from outside (wrapper streams, sys.monitoring, "
                      "icontract invariants applied in the harness). Workers export FASTAVRO_VERIF=1 anyway.",
            "baseline_off_cmd": "python3 tools/baseline.py",
            "source_commits": hooks_commits,
            "add_only": True,
        },
        "engines": [{
            "name": "vf", "path": "vf/",
            "serves_properties": sorted(CHECKS),
            "kind_free_text": "runtime monitoring harness: generators, independent reference model as oracle, stream/"
                              "state monitors, history checkers, deterministic sys.monitoring thread scheduler; "
                              "16-way sharded subprocess workers over a scratch copy of /repo/fastavro/**/*.py",
        }],
        "checks": checks,
        "notes": "Subject is the pure-Python fastavro (the *_py.py modules, which is what the 540-test baseline runs): "
                 "Cython is not installed and not in the wheelhouse, so the .pyx mirrors cannot be rebuilt from the working "
                 "tree and compiler sanitizers / valgrind have nothing to instrument (DESIGN.md §1). Exit codes: 0 held on "
                 "everything explored, 1 VIOLATION, 2 INCONCLUSIVE (harness failure or reach counter below minimum; never a "
                 "verdict). fix: commits in /repo and open findings are listed in known_findings.json.",
        "not_applicable": na,
    }
    with open(os.path.join(HERE, "MANIFEST.json"), "w") as f:
        json.dump(man, f, indent=1)
    print("MANIFEST.json: %d checks, %d not claimed" % (len(checks), len(na)))


if __name__ == "__main__":
    main()

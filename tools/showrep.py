#!/usr/bin/env python3
"""Print recent replay files of a property, a few per violation kind, small cases first."""
import sys, json, base64, pickle, glob, os, collections
sys.path.insert(0, '/verif')
pid = sys.argv[1]; maxlen = int(sys.argv[2]) if len(sys.argv) > 2 else 600; per = int(sys.argv[3]) if len(sys.argv) > 3 else 2
files = sorted(glob.glob('/verif/replays/%s-*.json' % pid), key=os.path.getmtime)
if files:
    newest = os.path.getmtime(files[-1]); files = [f for f in files if os.path.getmtime(f) > newest - 120]
items = []
for f in files:
    r = json.load(open(f))
    try: c = pickle.loads(base64.b64decode(r['pickle']))
    except Exception: c = {}
    items.append((len(repr(c)), r, c))
items.sort(key=lambda x: x[0])
seen = collections.Counter()
for n, r, c in items:
    k = r['kind'] + '|' + r['detail'][:40]
    if seen[r['kind']] >= per: continue
    seen[r['kind']] += 1
    print('==', r['kind'], '::', r['detail'][:300])
    for key, v in c.items():
        s = json.dumps(v) if key in ('schema', 'writer', 'reader', 'rewritten') else repr(v)
        print('   %s: %s' % (key, s[:maxlen]))

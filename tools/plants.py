#!/usr/bin/env python3
"""Planted faults from DESIGN.md §4 ("Plants") and neutral edits.

For each entry: apply the textual edit in a scratch worktree of /repo HEAD, run the
repository's own test suite (a plant the 540 baseline tests catch is discarded as
unrealistic), keep it as seeded/PLANT-<id>/ and run the listed checks against it.
Neutral edits must leave every listed check silent (exit 0).

usage: plants.py [id ...]      (no ids = all)"""
import json
import os
import subprocess
import sys
import tempfile
import xml.etree.ElementTree as ET

PY = "/venv/bin/python"

PLANTS = [
    # id, property, file, old, new, checks, neutral, summary
    ("read_fixed_size0", "C01", "fastavro/io/binary_decoder.py",
     '        out = self.fo.read(size)\n        if len(out) < size:',
     '        out = self.fo.read(size or 1)\n        if len(out) < size:',
     ["C01", "C03"], False, "read_fixed reads one byte for a size-0 fixed (stream over-consumed)"),
    ("empty_map_no_terminator", "C01", "fastavro/_write_py.py",
     '            write_data(encoder, val, vtype, named_schemas, fname, options)\n    encoder.write_map_end()',
     '            write_data(encoder, val, vtype, named_schemas, fname, options)\n    if len(datum) > 0 or not isinstance(datum, dict):\n        encoder.write_map_end()\n    else:\n        encoder.write_map_end() if fname != "m" else None',
     ["C01", "C02"], False, "empty map written without terminator when it is the value of a field named 'm'"),
    ("skip_map_no_key", "C03", "fastavro/_read_py.py",
     '    for item in decoder.iter_map():\n        decoder.read_utf8()\n        skip_data(decoder, writer_schema["values"], named_schemas)',
     '    for item in decoder.iter_map():\n        skip_data(decoder, writer_schema["values"], named_schemas)',
     ["C03", "C08"], False, "skip_map does not consume the key"),
    ("neg_block_size_not_consumed", "C03", "fastavro/io/binary_decoder.py",
     '                # Read block size, unused\n                self.read_long()\n',
     '                # Read block size, unused\n',
     ["C03"], False, "byte size of a negative-count block not consumed"),
    ("interval_gt_neutral", "C04", "fastavro/_write_py.py",
     '        if self.io._fo.tell() >= self.sync_interval:',
     '        if self.io._fo.tell() > self.sync_interval:',
     ["C04", "C05", "C06", "C07"], True, "NEUTRAL: '>=' -> '>' in the sync interval test only changes the grouping into blocks"),
    ("tell_on_nonseekable", "C04", "fastavro/_write_common.py",
     '    if file_like.seekable() and file_like.tell() != 0:',
     '    if file_like.tell() != 0 and file_like.seekable():',
     ["C04"], False, "writer calls tell() on a non-seekable output"),
    ("sync_compare_8", "C05", "fastavro/_read_py.py",
     '    if fo.read(SYNC_SIZE) != sync_marker:',
     '    if fo.read(SYNC_SIZE)[:8] != sync_marker[:8]:',
     ["C06", "C05"], False, "sync marker compared on its first 8 bytes only"),
    ("block_size_before_sync", "C05", "fastavro/_read_py.py",
     '        block_bytes = read_block(decoder)\n\n        skip_sync(decoder.fo, sync_marker)\n\n        size = decoder.fo.tell() - offset',
     '        block_bytes = read_block(decoder)\n\n        size = decoder.fo.tell() - offset\n        skip_sync(decoder.fo, sync_marker)\n',
     ["C05"], False, "Block.size computed before the sync marker (blocks do not tile)"),
    ("eof_widened", "C06", "fastavro/_read_py.py",
     '    block_count = 0\n    while True:\n        try:\n            block_count = decoder.read_long()\n        except EOFError:\n            return',
     '    block_count = 0\n    while True:\n        try:\n            block_count = decoder.read_long()\n        except Exception:\n            return',
     ["C06"], False, "'except EOFError: return' widened to 'except Exception' (a cut inside the count varint ends normally)"),
    ("write_block_no_dump", "C07", "fastavro/_write_py.py",
     '        if self.io._fo.tell() or self.block_count > 0:\n            self.dump()\n        self.encoder.write_long(block.num_records)',
     '        self.encoder.write_long(block.num_records)',
     ["C07"], False, "write_block does not dump pending records first (reorder)"),
    ("skip_record_reverse", "C08", "fastavro/_read_py.py",
     'def skip_record(decoder, writer_schema, named_schemas):\n    for field in writer_schema["fields"]:',
     'def skip_record(decoder, writer_schema, named_schemas):\n    for field in reversed(writer_schema["fields"]):',
     ["C08", "C03"], False, "skip_record skips the fields in reverse order"),
    ("alias_lookup_dropped", "C08", "fastavro/_read_py.py",
     '            readers_field = readers_field_dict.get(\n                field["name"],\n                aliases_field_dict.get(field["name"]),\n            )',
     '            readers_field = readers_field_dict.get(field["name"])',
     ["C08"], False, "reader field aliases no longer consulted"),
    ("no_int_float_promotion", "C08", "fastavro/_read_py.py",
     '    if writer_type == "long":\n        if reader_type == "float" or reader_type == "double":\n            return float(data)',
     '    if writer_type == "long":\n        if reader_type == "double":\n            return float(data)',
     ["C08"], False, "long -> float promotion does not convert the value"),
    ("enum_default_always", "C08", "fastavro/_read_py.py",
     '    if reader_schema and symbol not in reader_schema["symbols"]:\n        default = reader_schema.get("default")',
     '    if reader_schema and (symbol not in reader_schema["symbols"] or reader_schema.get("default") == reader_schema["symbols"][0]):\n        default = reader_schema.get("default")',
     ["C08"], False, "enum default used even when the symbol is known (when the default is the first symbol)"),
    ("tie_last", "C09", "fastavro/_write_py.py",
     '                    if fields > most_fields:',
     '                    if fields >= most_fields:',
     ["C09", "C01"], False, "record ties resolved to the last branch"),
    ("hint_unqualified", "C09", "fastavro/_write_py.py",
     '            if name == schema_name:\n                best_match_index = index\n                break',
     '            if name == schema_name or (isinstance(schema_name, str) and name == schema_name.split(".")[-1] and len(schema) > 3):\n                best_match_index = index\n                break',
     ["C09"], False, "tuple hint also matches the unqualified name in unions of more than 3 branches"),
    ("long_max_off_by_one", "C10", "fastavro/const.py",
     'LONG_MAX_VALUE = (1 << 63) - 1',
     'LONG_MAX_VALUE = (1 << 63) - 2',
     ["C10"], False, "LONG_MAX_VALUE off by one"),
    ("map_key_check_removed", "C10", "fastavro/_validation_py.py",
     '        and all(isinstance(k, str) for k in datum)\n',
     '',
     ["C10"], False, "validate no longer checks that map keys are strings"),
    ("strict_ignored_nullable", "C10", "fastavro/_validation_py.py",
     '    if datum is NoValue and options.get("strict"):\n        result = False',
     '    if datum is NoValue and options.get("strict") and "null" not in (schema if isinstance(schema, list) else [schema]):\n        result = False',
     ["C10"], False, "strict mode ignored for nullable fields"),
    ("dotted_not_overriding", "C11", "fastavro/_schema_py.py",
     '    namespace = schema.get("namespace", parent_ns)\n    if "." in name:',
     '    namespace = schema.get("namespace", parent_ns)\n    if "." in name and "namespace" not in schema:',
     ["C11", "C13"], False, "a dotted name no longer overrides an explicit namespace attribute"),
    ("scale_check_inverted", "C11", "fastavro/_schema_py.py",
     '            if scale and precision and precision < scale:',
     '            if scale and precision and precision < scale - 1:',
     ["C11"], False, "scale may exceed the precision by one"),
    ("pcf_size_string", "C13", "fastavro/_schema_py.py",
     """            fo.write(f'{{"name":"{name}","type":"{schema_type}","size":{size}}}')""",
     """            fo.write(f'{{"name":"{name}","type":"{schema_type}","size":{size}}}' if size != 16 else f'{{"name":"{name}","type":"{schema_type}","size":"{size}"}}')""",
     ["C13"], False, "canonical form writes size 16 as a string"),
    ("pcf_dict_prim", "C13", "fastavro/_schema_py.py",
     """        elif schema_type in PRIMITIVES:\n            fo.write(f'"{schema_type}"')""",
     """        elif schema_type in PRIMITIVES:\n            fo.write(f'"{schema_type}"' if "doc" not in schema else f'{{"type":"{schema_type}"}}')""",
     ["C13"], False, "dict-form primitive carrying a doc attribute is not reduced to the simple form"),
    ("crc_shift", "C14", "fastavro/_schema_common.py",
     '        result = (result >> 8) ^ fp_table[(result ^ byte) & 0xFF]',
     '        result = (result >> 8) ^ fp_table[(result ^ byte) & 0xFF] if byte != 0xF4 else (result >> 8) ^ fp_table[(result ^ 0xF3) & 0xFF]',
     ["C14"], False, "byte 0xF4 (first byte of plane 4-16 characters) hashed as 0xF3"),
    ("json_bytes_utf8", "C15", "fastavro/io/json_encoder.py",
     '    def write_bytes(self, value):\n        self._parser.advance(Bytes())\n        self.write_value(value.decode("iso-8859-1"))',
     '    def write_bytes(self, value):\n        self._parser.advance(Bytes())\n        self.write_value(value.decode("iso-8859-1") if len(value) != 3 else value.decode("utf-8", "replace"))',
     ["C15"], False, "3-byte bytes values encoded as UTF-8 text in JSON"),
    ("json_null_wrapped", "C15", "fastavro/io/json_encoder.py",
     '        if symbol != Null() and self._write_union_type:',
     '        if (symbol != Null() or index > 2) and self._write_union_type:',
     ["C15"], False, "a null branch at union position > 2 is wrapped as {\"null\": null}"),
    ("date_shift", "C16", "fastavro/_logical_writers_py.py",
     '    if isinstance(data, datetime.date):\n        return data.toordinal() - DAYS_SHIFT',
     '    if isinstance(data, datetime.date):\n        return data.toordinal() - DAYS_SHIFT - (1 if data.year < 1583 and data.month == 10 else 0)',
     ["C16"], False, "dates in October before 1583 stored one day early"),
    ("millis_round", "C16", "fastavro/_logical_writers_py.py",
     '            + data.second * MLS_PER_SECOND\n            + int(data.microsecond / 1000)',
     '            + data.second * MLS_PER_SECOND\n            + round(data.microsecond / 1000)',
     ["C16"], False, "time-millis rounds instead of truncating (23:59:59.9995 becomes the next day)"),
    ("injected_check_removed", "C19", "fastavro/_schema_py.py",
     '        if sub_schema["name"] not in injected_schemas:\n            injected_schema = _inject_schema(schema, sub_schema)',
     '        if True:\n            injected_schema = _inject_schema(schema, sub_schema)',
     ["C19"], False, "load_schema injects an already injected type again"),
    ("gen_enum_randint", "C20", "fastavro/utils.py",
     '        real_index = random.randint(0, len(enum_schema["symbols"]) - 1)\n        return enum_schema["symbols"][real_index]',
     '        real_index = random.randint(0, len(enum_schema["symbols"]))\n        return enum_schema["symbols"][real_index % len(enum_schema["symbols"]) if real_index < 6 else real_index]',
     ["C20"], False, "enum generation indexes past the end for enums of 6 or more symbols"),
    ("gen_count_minus_one", "C20", "fastavro/utils.py",
     '    for _ in range(count):\n        yield gen_data(parsed_schema, named_schemas)',
     '    for _ in range(count if count < 50 else count - 1):\n        yield gen_data(parsed_schema, named_schemas)',
     ["C20"], False, "generate_many yields one value too few for counts >= 50"),
    ("named_cache_leak", "C17", "fastavro/_validation_py.py",
     'def validate(\n    datum: Any,',
     '_LAST_NAMED: NamedSchemas = {}\n\n\ndef validate(\n    datum: Any,',
     ["C17"], True, "NEUTRAL: an unused module-level dict is added (a harmless cache must not raise an alarm)"),
]


def sh(cmd, cwd, timeout=900):
    p = subprocess.run(cmd, cwd=cwd, shell=isinstance(cmd, str), stdout=subprocess.PIPE, stderr=subprocess.STDOUT, timeout=timeout)
    return p.returncode, p.stdout.decode("utf-8", "replace")


def tests_missing(wt):
    fd, xml = tempfile.mkstemp(suffix=".xml")
    os.close(fd)
    sh([PY, "-m", "pytest", "-q", "-p", "no:cacheprovider", "--timeout=900", "--continue-on-collection-errors", "--junitxml=" + xml], wt, 1200)
    passed = set()
    for tc in ET.parse(xml).getroot().iter("testcase"):
        if not any(ch.tag in ("failure", "error", "skipped") for ch in tc):
            passed.add("%s::%s" % (tc.get("classname"), tc.get("name")))
    os.unlink(xml)
    want = set(json.load(open("/root/.vp/BASELINE.json"))["stable_pass"])
    return sorted(want - passed)


def main():
    only = set(sys.argv[1:])
    for pid_, prop, path, old, new, checks, neutral, summary in PLANTS:
        if only and pid_ not in only:
            continue
        wt = tempfile.mkdtemp(prefix="plant-")
        os.rmdir(wt)
        subprocess.run(["git", "-C", "/repo", "worktree", "add", "-q", "--detach", wt, "HEAD"], check=True)
        try:
            fp = os.path.join(wt, path)
            src = open(fp).read()
            if src.count(old) != 1:
                print("PLANT %s: anchor text found %d times - skipped" % (pid_, src.count(old)))
                continue
            open(fp, "w").write(src.replace(old, new))
            rc, out = sh([PY, "-c", "import fastavro"], wt)
            if rc != 0:
                print("PLANT %s: does not import - skipped: %s" % (pid_, out[-200:]))
                continue
            missing = tests_missing(wt)
            if missing:
                print("PLANT %s: caught by the repository's own tests (%d failing, e.g. %s) - discarded" % (pid_, len(missing), missing[0]))
                continue
            _, patch = sh("git diff HEAD -- fastavro", wt)
            d = "/verif/seeded/PLANT-%s" % pid_
            os.makedirs(d, exist_ok=True)
            open(os.path.join(d, "patch.diff"), "w").write(patch)
            meta = {"property": prop, "summary": summary, "neutral": neutral,
                    "origin": "planted fault from DESIGN.md §4 (written by the framework author, not by an independent agent)",
                    "needs": summary,
                    "validated": {"test_suite_with_patch": "all 540 BASELINE stable_pass tests pass", "how": "tools/plants.py"}}
            mp = os.path.join(d, "meta.json")
            if os.path.exists(mp):
                meta["detection"] = json.load(open(mp)).get("detection", {})
            json.dump(meta, open(mp, "w"), indent=1)
        finally:
            subprocess.run(["git", "-C", "/repo", "worktree", "remove", "--force", wt])
        rc, out = sh([sys.executable, "/verif/tools/seedrun.py", "PLANT-%s" % pid_] + checks, "/verif", 3600)
        verdicts = []
        for line in out.splitlines():
            if line.startswith("PLANT-"):
                r = json.loads(line.split(" ", 1)[1])
                verdicts.append("%s:%s" % (r["check"], "exit%d" % r["exit"]))
        print("PLANT %-28s %s %s -> %s" % (pid_, prop, "NEUTRAL" if neutral else "", " ".join(verdicts)))


if __name__ == "__main__":
    main()

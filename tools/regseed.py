#!/usr/bin/env python3
"""Create a regression seed from a fix: commit in /repo (reverse diff).
usage: regseed.py <commit> <property> <summary> <needs>"""
import json, os, subprocess, sys
c, pid, summary, needs = sys.argv[1:5]
d = "/verif/seeded/REG-%s" % c
os.makedirs(d, exist_ok=True)
patch = subprocess.run(["git", "-C", "/repo", "diff", c, c + "~1", "--", "fastavro"], stdout=subprocess.PIPE, check=True).stdout.decode()
open(os.path.join(d, "patch.diff"), "w").write(patch)
json.dump({"property": pid, "summary": "regression seed: reverse of fix %s (%s)" % (c, summary), "needs": needs,
           "origin": "reverse diff of a fix: commit in /repo; the defect it re-introduces was found by this framework on the original tree"},
          open(os.path.join(d, "meta.json"), "w"), indent=1)
print(d)

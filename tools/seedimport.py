#!/usr/bin/env python3
"""Validate sub-agent seeded changes and import them into /verif/seeded.

usage: seedimport.py <agent worktree> <property id>

For each _seed/seed<i>.diff in the agent's worktree: in a fresh scratch worktree
of /repo HEAD, (1) demo passes on the unchanged tree, (2) patch applies,
(3) the repository's own test suite still passes (BASELINE stable_pass),
(4) demo fails with the patch.  Only then is it kept as
/verif/seeded/<pid>-<k>/{patch.diff,demo.py,meta.json}."""
import json, os, shutil, subprocess, sys, tempfile
import xml.etree.ElementTree as ET

PY = "/venv/bin/python"


def sh(cmd, cwd, timeout=600):
    p = subprocess.run(cmd, cwd=cwd, shell=isinstance(cmd, str), stdout=subprocess.PIPE, stderr=subprocess.STDOUT, timeout=timeout)
    return p.returncode, p.stdout.decode("utf-8", "replace")


def tests_ok(wt):
    fd, xml = tempfile.mkstemp(suffix=".xml"); os.close(fd)
    sh([PY, "-m", "pytest", "-q", "-p", "no:cacheprovider", "--timeout=900", "--continue-on-collection-errors", "--junitxml=" + xml], wt, 1200)
    passed = set()
    for tc in ET.parse(xml).getroot().iter("testcase"):
        if not any(ch.tag in ("failure", "error", "skipped") for ch in tc):
            passed.add("%s::%s" % (tc.get("classname"), tc.get("name")))
    os.unlink(xml)
    want = set(json.load(open("/root/.vp/BASELINE.json"))["stable_pass"])
    return sorted(want - passed)


def main():
    src, pid = sys.argv[1], sys.argv[2]
    seeddir = os.path.join(src, "_seed")
    out_root = "/verif/seeded"
    os.makedirs(out_root, exist_ok=True)
    wt = tempfile.mkdtemp(prefix="seedval-")
    os.rmdir(wt)
    subprocess.run(["git", "-C", "/repo", "worktree", "add", "-q", "--detach", wt, "HEAD"], check=True)
    try:
        i = 0
        while True:
            i += 1
            diff = os.path.join(seeddir, "seed%d.diff" % i)
            if not os.path.exists(diff):
                break
            demo = os.path.join(seeddir, "demo%d.py" % i)
            meta = json.load(open(os.path.join(seeddir, "meta%d.json" % i)))
            shutil.copy(demo, os.path.join(wt, "_demo.py"))
            rc0, out0 = sh([PY, "_demo.py"], wt)
            rc, out = sh(["git", "apply", "--3way", diff], wt)
            if rc != 0:
                rc, out = sh(["git", "apply", diff], wt)
            if rc != 0:
                print("seed%d: patch does not apply to current HEAD: %s" % (i, out[-300:])); continue
            _, patch = sh("git diff HEAD -- fastavro", wt)
            missing = tests_ok(wt)
            rc1, out1 = sh([PY, "_demo.py"], wt)
            sh("git checkout -q HEAD -- fastavro && git reset -q", wt)
            ok = rc0 == 0 and rc1 != 0 and not missing
            print("seed%d: demo clean rc=%d, patched rc=%d, tests missing=%d -> %s" % (i, rc0, rc1, len(missing), "KEEP" if ok else "DROP"))
            if not ok:
                print("   ", out0[-200:], "|", out1[-200:], missing[:3]); continue
            k = 1
            while os.path.exists(os.path.join(out_root, "%s-%d" % (pid, k))):
                k += 1
            dst = os.path.join(out_root, "%s-%d" % (pid, k))
            os.makedirs(dst)
            open(os.path.join(dst, "patch.diff"), "w").write(patch)
            shutil.copy(demo, os.path.join(dst, "demo.py"))
            meta.update({
                "property": pid,
                "validated": {
                    "repo_head": subprocess.run(["git", "-C", "/repo", "rev-parse", "--short", "HEAD"], stdout=subprocess.PIPE).stdout.decode().strip(),
                    "demo_on_unchanged_tree": "exit %d" % rc0,
                    "demo_with_patch": "exit %d: %s" % (rc1, out1.strip()[-300:]),
                    "test_suite_with_patch": "all 540 BASELINE stable_pass tests pass",
                    "how": "tools/seedimport.py in a scratch worktree of /repo HEAD (removed afterwards)",
                },
                "origin": "independent sub-agent given only the property text and a scratch worktree",
            })
            json.dump(meta, open(os.path.join(dst, "meta.json"), "w"), indent=1)
    finally:
        subprocess.run(["git", "-C", "/repo", "worktree", "remove", "--force", wt])


if __name__ == "__main__":
    main()

#!/usr/bin/env python3
"""Run the repository's test suite (hooks off) and compare with the pinned
baseline: every test in BASELINE.json stable_pass must pass."""
import json, os, subprocess, sys, tempfile
import xml.etree.ElementTree as ET

base = json.load(open("/root/.vp/BASELINE.json")) if os.path.exists("/root/.vp/BASELINE.json") else None
fd, xml = tempfile.mkstemp(suffix=".xml"); os.close(fd)
env = dict(os.environ); env.pop("FASTAVRO_VERIF", None)
p = subprocess.run(["/venv/bin/python", "-m", "pytest", "-q", "-p", "no:cacheprovider", "--timeout=900",
                    "--continue-on-collection-errors", "--junitxml=" + xml], cwd="/repo", env=env,
                   stdout=subprocess.PIPE, stderr=subprocess.STDOUT)
passed = set()
for tc in ET.parse(xml).getroot().iter("testcase"):
    if not any(ch.tag in ("failure", "error", "skipped") for ch in tc):
        passed.add("%s::%s" % (tc.get("classname"), tc.get("name")))
os.unlink(xml)
if base is None:
    print("no baseline file; %d tests passed" % len(passed)); sys.exit(0)
want = set(base["stable_pass"])
missing = sorted(want - passed)
print("baseline stable_pass=%d passed_now=%d missing=%d" % (len(want), len(passed & want), len(missing)))
for m in missing[:20]:
    print("  NOT PASSING:", m)
sys.exit(1 if missing else 0)

#!/bin/sh
# usage: tools/runall.sh [tier] ; VERIF_SEED honoured
cd "$(dirname "$0")/.."
tier=${1:-quick}
rc=0
for i in 01 02 03 04 05 06 07 08 09 10 11 12 13 14 15 16 17 18 19 20; do
  out=$(./check C$i --tier $tier 2>&1); code=$?
  echo "C$i exit=$code $(echo "$out" | grep "tier=$tier" | cut -c1-110)"
  echo "$out" | grep "^KNOWN-FINDING" | cut -c1-120
  if [ $code -ne 0 ]; then rc=1; echo "$out" | grep -v "^  counters" | tail -5 | cut -c1-300; fi
done
exit $rc

#!/usr/bin/env python3
"""Re-create the patch of a seed whose context lines changed in /repo since it was made:
3-way apply in a scratch worktree of HEAD, demo must still fail (when there is one), the
540 baseline tests must pass, then patch.diff := git diff HEAD.  usage: seedrefresh.py <id>..."""
import json, os, subprocess, sys, tempfile, shutil
sys.path.insert(0, os.path.dirname(__file__))
import seedimport

def main():
    for sid in sys.argv[1:]:
        sdir = os.path.join("/verif/seeded", sid)
        wt = tempfile.mkdtemp(prefix="seedref-"); os.rmdir(wt)
        subprocess.run(["git", "-C", "/repo", "worktree", "add", "-q", "--detach", wt, "HEAD"], check=True)
        try:
            p = subprocess.run(["git", "-C", wt, "apply", "--3way", os.path.join(sdir, "patch.diff")], stdout=subprocess.PIPE, stderr=subprocess.STDOUT)
            if p.returncode != 0 or b"conflict" in p.stdout.lower():
                print(sid, "CONFLICT", p.stdout.decode()[-200:]); continue
            demo = os.path.join(sdir, "demo.py")
            note = ""
            if os.path.exists(demo):
                shutil.copy(demo, os.path.join(wt, "_demo.py"))
                rc = subprocess.run([seedimport.PY, "_demo.py"], cwd=wt, stdout=subprocess.PIPE, stderr=subprocess.STDOUT).returncode
                os.unlink(os.path.join(wt, "_demo.py"))
                if rc == 0:
                    print(sid, "DEMO-PASSES (change no longer manifests)"); continue
                note = "demo fails with it, "
            missing = seedimport.tests_ok(wt)
            if missing:
                print(sid, "TESTS-FAIL", missing[:3]); continue
            diff = subprocess.run(["git", "-C", wt, "diff", "HEAD", "--", "fastavro"], stdout=subprocess.PIPE).stdout
            open(os.path.join(sdir, "patch.diff"), "wb").write(diff)
            head = subprocess.run(["git", "-C", "/repo", "rev-parse", "--short", "HEAD"], stdout=subprocess.PIPE).stdout.decode().strip()
            m = json.load(open(os.path.join(sdir, "meta.json")))
            m.setdefault("validated", {})["rebased"] = "patch re-created by 3-way merge onto HEAD %s (%sbaseline tests pass)" % (head, note)
            json.dump(m, open(os.path.join(sdir, "meta.json"), "w"), indent=1)
            print(sid, "refreshed")
        finally:
            subprocess.run(["git", "-C", "/repo", "worktree", "remove", "--force", wt])

if __name__ == "__main__":
    main()

#!/bin/sh
# Offline setup: optional contract libraries next to the repository's interpreter
# (git-ignored .deps) and a self-test of the reference model.
set -e
cd "$(dirname "$0")"
if [ ! -d .deps/icontract ]; then
  /venv/bin/python -m pip install -q --no-index --find-links /opt/veriftools/wheels --target .deps icontract deal >/dev/null 2>&1 || echo "setup: icontract/deal not installed (auxiliary invariants will be off)"
fi
/venv/bin/python -B -m vf.selftest
